"""JSON codec for cases.

A *case* is a plain dict that is strict-JSON serialisable.  Arrays are written as
``{"dt": <dtype str>, "sh": [..], "v": [flat values]}``; non-finite floats are the
strings "nan" / "inf" / "-inf"; NaT is the string "nat"; datetimes are int64 ticks.
"""

from __future__ import annotations

import hashlib
import json
import math

import numpy as np

_NONFINITE = {"nan": math.nan, "inf": math.inf, "-inf": -math.inf}
NAT_INT = np.iinfo(np.int64).min


def fnum(x):
    """encode one python/numpy scalar for JSON"""
    if isinstance(x, (bool, np.bool_)):
        return bool(x)
    if isinstance(x, (int, np.integer)):
        return int(x)
    if isinstance(x, (float, np.floating)):
        x = float(x)
        if math.isnan(x):
            return "nan"
        if math.isinf(x):
            return "inf" if x > 0 else "-inf"
        return x
    if isinstance(x, (str, np.str_)):
        return str(x)
    if x is None:
        return None
    raise TypeError(f"cannot encode {type(x)}")


def unnum(x):
    if isinstance(x, str) and x in _NONFINITE:
        return _NONFINITE[x]
    return x


def enc(arr) -> dict:
    """ndarray -> spec"""
    arr = np.asarray(arr)
    dt = arr.dtype
    if dt.kind in "Mm":
        iv = arr.view(np.int64).reshape(-1).tolist()
        v = ["nat" if i == NAT_INT else i for i in iv]
        return {"dt": dt.str, "sh": list(arr.shape), "v": v}
    if dt.kind in "US":
        return {"dt": "U", "sh": list(arr.shape), "v": [str(s) for s in arr.reshape(-1).tolist()]}
    if dt.kind == "O":
        return {"dt": "O", "sh": list(arr.shape), "v": [fnum(s) for s in arr.reshape(-1).tolist()]}
    return {"dt": dt.str, "sh": list(arr.shape), "v": [fnum(s) for s in arr.reshape(-1).tolist()]}


def spec(dt: str, v, sh=None) -> dict:
    """build a spec from python values (used by strategies)"""
    v = list(v)
    return {"dt": dt, "sh": [len(v)] if sh is None else list(sh), "v": v}


def dec(s: dict) -> np.ndarray:
    """spec -> fresh ndarray (always a new, writable, C-contiguous array)"""
    dt = s["dt"]
    sh = tuple(s["sh"])
    v = s["v"]
    if dt == "U":
        a = np.array(list(v), dtype=str) if len(v) else np.array([], dtype="U1")
        return a.reshape(sh)
    if dt == "O":
        a = np.empty(len(v), dtype=object)
        for i, x in enumerate(v):
            a[i] = unnum(x)
        return a.reshape(sh)
    npdt = np.dtype(dt)
    if npdt.kind in "Mm":
        iv = np.array([NAT_INT if x == "nat" else int(x) for x in v], dtype=np.int64)
        return iv.view(npdt).reshape(sh).copy()
    if npdt.kind == "f":
        a = np.array([unnum(x) for x in v], dtype=np.float64).astype(npdt)
        return a.reshape(sh)
    if npdt.kind == "b":
        return np.array([bool(x) for x in v], dtype=bool).reshape(sh)
    # ints: go through python ints to avoid float rounding
    a = np.array([int(x) for x in v], dtype=npdt) if len(v) else np.array([], dtype=npdt)
    return a.reshape(sh)


def is_spec(x) -> bool:
    return isinstance(x, dict) and set(x.keys()) == {"dt", "sh", "v"}


def canon(case) -> str:
    return json.dumps(case, sort_keys=True, separators=(",", ":"), allow_nan=False)


def digest(case) -> bytes:
    return hashlib.sha1(canon(case).encode()).digest()[:10]


def abbreviate(obj, maxlen=24):
    """shorten long lists inside a case for evidence samples"""
    if isinstance(obj, dict):
        return {k: abbreviate(v, maxlen) for k, v in obj.items()}
    if isinstance(obj, (list, tuple)):
        if len(obj) > maxlen:
            return [abbreviate(x, maxlen) for x in obj[:maxlen]] + [f"... ({len(obj)} items)"]
        return [abbreviate(x, maxlen) for x in obj]
    if isinstance(obj, float) and not math.isfinite(obj):
        return fnum(obj)
    return obj


def sanitize(obj):
    """make arbitrary python/numpy structures strict-JSON (for messages / evidence)"""
    if isinstance(obj, dict):
        return {str(k): sanitize(v) for k, v in obj.items()}
    if isinstance(obj, (list, tuple, set, frozenset)):
        return [sanitize(x) for x in obj]
    if isinstance(obj, np.ndarray):
        return sanitize(obj.tolist())
    if isinstance(obj, (bool, np.bool_, int, np.integer, float, np.floating, str, np.str_)) or obj is None:
        return fnum(obj)
    return repr(obj)
