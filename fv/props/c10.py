"""C10 — grouped scans equal per-group sequential scans for every chunking."""

from __future__ import annotations

import itertools

import numpy as np
from hypothesis import strategies as st

from .. import gen
from ..base import Outcome, run
from ..cmp import close
from ..codec import dec

ID = "C10"
RULE = (
    "Hypothesis: arrays (1-D + 0-2 batch dims, scan along the last axis) of float64/float32/int/uint/bool/datetime64/"
    "timedelta64 with NaN runs drawn as intervals straddling chunk borders; interleaved labels (int/float/str), groups "
    "absent from some chunks, missing labels (ffill/bfill only); all chunkings with 1..12 blocks; plus exhaustive small "
    "scope (all sequences of length <=6 (thorough 8) over {1,NaN} x all chunkings x 2 label patterns). Oracle: per group, "
    "numpy.nancumsum / forward fill / backward fill of its members in positional order written back to their positions; "
    "shape == input shape; eager == chunked everywhere (also at positions with a missing label, whose values are "
    "otherwise unspecified); bfill == reverse(ffill(reverse)); deleting missing-label elements leaves labelled positions "
    "unchanged; nancumsum with missing labels must be a clean refusal. Non-trivial = >=3 blocks and a group that skips a "
    "block or is all-NaN inside a block."
)
BUDGET = {"quick": 500, "thorough": 3000}
ASSUMPTIONS = [
    "datetime arrays for ffill/bfill carry no NaT (flox short-circuits non-float dtypes; what filling NaT means is not stated)",
    "float cumsums only on the dyadic alphabet (exact)",
]
FUNCS = ["nancumsum", "ffill", "bfill"]


@st.composite
def cases(draw, tier="quick"):
    func = draw(st.sampled_from(FUNCS))
    dt = draw(st.sampled_from(["<f8", "<f8", "<f8", "<f4", "<i8", "|i1", "<u2", "|b1", "<M8[ns]", "<m8[s]"]))
    n = draw(st.integers(1, 24))
    batch = draw(st.sampled_from([[], [], [2], [1, 2]]))
    nb = int(np.prod(batch)) if batch else 1
    chunks = gen.draw_chunks(draw, n, max_blocks=12)
    if dt in ("<M8[ns]", "<m8[s]"):
        vals = draw(st.lists(st.integers(0, 50), min_size=n * nb, max_size=n * nb))
    else:
        vals = gen.draw_values(draw, n * nb, dt, "sum", nan_p=0)
    if "f" in dt:
        borders = list(itertools.accumulate(chunks))[:-1]
        for _ in range(draw(st.integers(0, 3))):
            if borders and draw(st.booleans()):
                c = draw(st.sampled_from(borders))
                a = max(0, c - draw(st.integers(0, 3)))
                b = min(n - 1, c + draw(st.integers(0, 3)))
            else:
                a = draw(st.integers(0, n - 1))
                b = min(n - 1, a + draw(st.integers(0, 4)))
            row = draw(st.integers(0, nb - 1))
            for i in range(a, b + 1):
                vals[row * n + i] = "nan"
    lab = gen.draw_labels(
        draw, n, kinds=["int", "int", "float", "str", "u1"], max_groups=4, missing=(func != "nancumsum") or draw(st.integers(0, 9)) == 0,
        styles=["random", "periodic", "runs", "blocks", "constant", "sorted", "random", "periodic", "runs", "blocks", "distinct"],
    )  # fmt: skip
    return {
        "arr": {"dt": dt, "sh": batch + [n], "v": vals},
        "by": lab["spec"],
        "func": func,
        "chunks": [[b] for b in batch] + [chunks],
        "batch_chunk1": draw(st.booleans()),
    }


def strategy(tier):
    return cases(tier)


def enumerate_cases(tier):
    maxlen = 6 if tier == "quick" else 8
    for n in range(1, maxlen + 1):
        comps = []
        for cuts in itertools.product([0, 1], repeat=n - 1):
            c, cur = [], 1
            for x in cuts:
                if x:
                    c.append(cur)
                    cur = 1
                else:
                    cur += 1
            c.append(cur)
            comps.append(c)
        patterns = [[i % 2 for i in range(n)], [0] * (n // 2) + [1] * (n - n // 2)]
        for vals in itertools.product([1.0, "nan"], repeat=n):
            for pi, pat in enumerate(patterns):
                for ci, c in enumerate(comps):
                    yield {"arr": {"dt": "<f8", "sh": [n], "v": list(vals)}, "by": {"dt": "<i8", "sh": [n], "v": pat},
                           "func": FUNCS[(ci + pi) % 3], "chunks": [c], "batch_chunk1": False}  # fmt: skip


def exhaustive_note(tier):
    return f"all float sequences of length 1..{6 if tier == "quick" else 8} over {{1, NaN}} x all chunk compositions x 2 label patterns; scan kind rotates"


def ref_scan(row, by, func):
    """reference for one 1-D row -> (values as float64 (NaN = missing), specified mask)"""
    n = row.shape[0]
    isf = row.dtype.kind == "f"
    vals = row.astype(np.float64) if row.dtype.kind not in "Mm" else row.view(np.int64).astype(np.float64)
    out = np.full(n, np.nan)
    spec = np.zeros(n, dtype=bool)
    labs = by.tolist()
    groups = {}
    for i, l in enumerate(labs):
        if isinstance(l, float) and np.isnan(l):
            continue
        groups.setdefault(l, []).append(i)
    for idx in groups.values():
        m = vals[idx]
        if func == "nancumsum":
            r = np.nancumsum(m)
        else:
            r = m.copy()
            if isf:
                order = range(len(r)) if func == "ffill" else range(len(r) - 1, -1, -1)
                last = np.nan
                for j in order:
                    if np.isnan(r[j]):
                        r[j] = last
                    else:
                        last = r[j]
        out[idx] = r
        spec[idx] = True
    return out, spec


def as_f(a):
    a = np.asarray(a)
    if a.dtype.kind in "Mm":
        return a.view(np.int64).astype(np.float64)
    return a.astype(np.float64)


def scan_call(arr, by, func, chunks=None):
    from flox.core import groupby_scan

    def go():
        if chunks is None:
            return np.asarray(groupby_scan(arr, by, func=func))
        import dask
        import dask.array as da

        d = da.from_array(arr, chunks=tuple(tuple(c) for c in chunks))
        with dask.config.set(scheduler="sync"):
            r = groupby_scan(d, by, func=func)
            return np.asarray(r.compute()) if dask.is_dask_collection(r) else np.asarray(r)

    return run(go)


def execute(case) -> Outcome:
    out = Outcome()
    arr = dec(case["arr"])
    by = dec(case["by"])
    func = case["func"]
    chunks = [list(c) for c in case["chunks"]]
    if case.get("batch_chunk1") and len(chunks) > 1:
        chunks[0] = [1] * arr.shape[0]
    n = arr.shape[-1]
    out.label(f"func={func}", f"dtype={arr.dtype.str}", f"nblocks={min(len(chunks[-1]), 12)}")
    has_missing = by.dtype.kind == "f" and bool(np.isnan(by).any())
    rows = arr.reshape(-1, n)
    refs = [ref_scan(r, by, func) for r in rows]

    # non-triviality
    blocks = gen.blocks_of(chunks[-1])
    nt = False
    if len(blocks) >= 3:
        labs = by.tolist()
        for g in set(l for l in labs if not (isinstance(l, float) and np.isnan(l))):
            present = [any(labs[i] == g for i in range(a, b)) for a, b in blocks]
            first, last = present.index(True), len(present) - 1 - present[::-1].index(True)
            if not all(present[first : last + 1]):
                nt = True
            if arr.dtype.kind == "f":
                for a, b in blocks:
                    idx = [i for i in range(a, b) if labs[i] == g]
                    if idx and np.isnan(rows[0][idx]).all():
                        nt = True
    out.nontrivial = nt

    e = scan_call(arr, by, func)
    c = scan_call(arr, by, func, chunks)
    if func == "nancumsum" and has_missing:
        for name, r in (("eager", e), ("chunked", c)):
            if r.kind == "value":
                out.add(("nancumsum-missing-labels-not-refused", name), f"[{name}] nancumsum with missing labels returned a value: {r.value.tolist()}")
            elif r.kind == "error":
                et, fr = r.errsig()
                out.add(("exception", et, fr), f"[{name}] {r.describe()}")
        out.label("refusal-nancumsum-missing")
        return out

    results = {}
    for name, r in (("eager", e), ("chunked", c)):
        if r.kind == "error":
            et, fr = r.errsig()
            out.add(("exception", et, fr), f"[{name}] {r.describe()} func={func} dtype={arr.dtype}")
            continue
        if r.kind == "refusal":
            out.add(("unexpected-refusal", name, type(r.exc).__name__), f"[{name}] {r.describe()}")
            continue
        res = r.value
        results[name] = res
        if res.shape != arr.shape:
            out.add(("shape", name), f"[{name}] shape {res.shape} != input {arr.shape}")
            continue
        r2 = as_f(res).reshape(-1, n)
        for irow, (want, spec) in enumerate(refs):
            ok = close(r2[irow], want) | ~spec
            if not ok.all():
                i = int(np.argmin(ok))
                singleton = len(set(by.tolist())) == n
                out.add(
                    ("value", func, name, "all-groups-singleton" if singleton else "general"),
                    f"[{name}] func={func} row={irow} pos={i}: got {r2[irow][i]!r}, per-group reference {want[i]!r}; "
                    f"values={as_f(rows[irow]).tolist()} labels={by.tolist()} chunks={chunks[-1]}",
                )
                break
    if "eager" in results and "chunked" in results:
        a, b = as_f(results["eager"]), as_f(results["chunked"])
        if a.shape == b.shape and not close(a, b).all():
            out.add(("eager-vs-chunked", func), f"func={func}: eager {a.tolist()} != chunked {b.tolist()} chunks={chunks[-1]} labels={by.tolist()}")
    if "eager" in results and func in ("ffill", "bfill"):
        other = "bfill" if func == "ffill" else "ffill"
        m = scan_call(arr[..., ::-1].copy(), by[::-1].copy(), other)
        if m.ok:
            a, b = as_f(results["eager"]), as_f(m.value)[..., ::-1]
            if a.shape == b.shape and not close(a, b).all():
                out.add(("mirror", func), f"{func}(x) != reverse({other}(reverse(x))): {a.tolist()} vs {b.tolist()}")
    if "eager" in results and has_missing:
        keep = ~np.isnan(by)
        if keep.any():
            t = scan_call(arr[..., keep].copy(), by[keep].copy(), func)
            if t.ok:
                a, b = as_f(results["eager"])[..., keep], as_f(t.value)
                if a.shape == b.shape and not close(a, b).all():
                    out.add(("twin", func), f"{func}: deleting missing-label elements changed labelled positions: {a.tolist()} vs {b.tolist()}")
    return out
