"""C02 — chunked result == eager result for every strategy / reindex mode / chunking."""

from __future__ import annotations

import numpy as np
from hypothesis import strategies as st

from .. import gen
from ..base import Outcome
from ..cmp import arrays_match, close, groups_match, tol_for
from ..codec import dec, unnum
from ..floxcall import chunked_reduce, eager_reduce, reduce_kwargs, relayout
from ..ref import ARG_FUNCS

ID = "C02"
RULE = (
    "Hypothesis-generated reduce cases (1-3-D values, 1-2-D labels, every axis chunked, numpy or dask labels "
    "with their own chunking, expected_groups/fill variants) x 3 drawn plans from method in {None, map-reduce, "
    "cohorts, blockwise (only when its precondition holds by construction)} x reindex in {None, True, False}. "
    "Oracle: computed chunked (result, groups) identical to the eager call with identical arguments (exact; "
    "var/std 1e-12, float32 1e-5); refusals are legal, any other exception is a violation. arg-reductions compared "
    "on NaN-free (nanarg*: not-all-NaN) groups only. Non-trivial = >=2 blocks along a reduced axis and (a group "
    "spanning >=2 blocks, or a group absent from a block, or a block whose labels are all missing)."
)
BUDGET = {"quick": 800, "thorough": 5000}
ASSUMPTIONS = [
    "eager result is the reference (its own agreement with NumPy is C01's business)",
    "dyadic value alphabets make every bracketing of partial sums exact",
    "explicit method='blockwise' generated only when every group lies in one block (or flox rechunks 1-D sequential labels itself)",
]

FUNCS = [
    "sum", "nansum", "prod", "nanprod", "mean", "nanmean", "var", "nanvar", "std", "nanstd",
    "max", "nanmax", "min", "nanmin", "argmax", "nanargmax", "argmin", "nanargmin",
    "nanfirst", "nanlast", "count", "any", "all", "first", "last",
]  # fmt: skip


def runs_are_sequential(vals) -> bool:
    """every label occupies exactly one contiguous run (missing allowed nowhere)"""
    seen, prev = set(), object()
    for v in vals:
        if v == "nan":
            return False
        if v != prev:
            if v in seen:
                return False
            seen.add(v)
            prev = v
    return True


@st.composite
def reduce_cases(draw, tier="quick", funcs=FUNCS, nplans=3, allow_blockwise=True, max_n=24, engines=None, label_styles=None, all_missing_ok=False):
    func = draw(st.sampled_from(funcs))
    if func in ("any", "all"):
        dt = "|b1"
    else:
        dt = draw(st.sampled_from(["<f8", "<f8", "<f8", "<f4", "<i8", "<i8", "|i1", "<u8", "|u1", "|b1", "<i4"]))
    by_ndim = draw(st.sampled_from([1, 1, 1, 2]))
    big = by_ndim == 1 and max_n >= 24 and draw(st.integers(0, 5)) == 0
    big_chunks = None
    if big:
        # many blocks / many groups: cohort merging, multi-level trees, non-trivial block subsets
        nblk = draw(st.integers(9, 20))
        big_chunks = [draw(st.sampled_from([1, 2, 2, 3])) for _ in range(nblk)]
        n = sum(big_chunks)
        by_shape = [n]
    elif by_ndim == 1:
        n = draw(st.integers(2, max_n))
        by_shape = [n]
    else:
        by_shape = [draw(st.integers(1, 4)), draw(st.integers(2, 6))]
        n = by_shape[0] * by_shape[1]
    batch = draw(st.sampled_from([[], [], [2], [3], [1]]))
    nb = int(np.prod(batch)) if batch else 1
    vals = gen.draw_values(draw, n * nb, dt, func)
    lab = gen.draw_labels(draw, n, styles=label_styles, allow_all_missing=all_missing_ok, max_groups=10 if big else 6)
    lab["spec"]["sh"] = by_shape
    shape = batch + by_shape
    case = {"arr": {"dt": dt, "sh": shape, "v": vals}, "by": lab["spec"], "func": func}
    if gen.func_family(func) == "var":
        case["ddof"] = draw(st.sampled_from([None, 0, 1]))
    present = []
    for v in lab["spec"]["v"]:
        if v != "nan" and v not in present:
            present.append(v)
    # expected groups
    kind = lab["kind"]
    mode = draw(st.sampled_from(["none", "none", "exact", "superset", "subset", "mixed"]))
    if not present:
        mode = draw(st.sampled_from(["none", "superset"]))
    extra_pool = {
        "int": [20, 21, -1], "negint": [100, -100], "bigint": [1, 2**41], "float": [99.5, -99.5], "floatint": [6.0, 3.5], "str": ["y", "z", "A"], "u1": [7, 100], "u8": [7, 100], "i2": [7, -100], "f4": [99.5, -99.5],
    }[kind]  # fmt: skip
    if mode != "none":
        if mode == "exact":
            labels = list(present)
        elif mode == "superset":
            labels = list(present) + draw(st.lists(st.sampled_from(extra_pool), min_size=1, max_size=2, unique=True))
        elif mode == "subset":
            k = draw(st.integers(1, len(present)))
            labels = list(draw(st.permutations(present))[:k])
        else:
            k = draw(st.integers(1, len(present)))
            labels = list(draw(st.permutations(present))[:k]) + [extra_pool[0]]
        case["expected"] = {"labels": sorted(labels), "as": draw(st.sampled_from(["array", "list", "index"]))}
        if kind == "floatint" and all(float(x).is_integer() for x in labels) and draw(st.booleans()):
            case["expected"]["cast"] = "int"  # integer expected_groups for float labels
        if any(x not in present for x in labels):
            case["fill_value"] = draw(st.sampled_from(["nan", 0, "NA"] if ("f" in dt and func not in ("count", "any", "all")) else ["nan", 0]))
            if func in ARG_FUNCS:
                case["fill_value"] = draw(st.sampled_from([0, -1]))
    case["engine"] = draw(st.sampled_from(engines or ["numpy", "numpy", "flox", "numbagg", None, None]))

    # chunking of every axis
    chunks = [gen.draw_chunks(draw, s, max_blocks=8) for s in shape]
    if big_chunks is not None:
        chunks[-1] = big_chunks
    by_dask = draw(st.integers(0, 3)) == 0
    by_chunks = None
    if by_dask:
        if draw(st.booleans()):
            by_chunks = [gen.draw_chunks(draw, s, max_blocks=8) for s in by_shape]
    plans = []
    red_chunks = chunks[len(batch):]
    single_block = all(len(c) == 1 for c in red_chunks)
    blockwise_ok = allow_blockwise and not by_dask and (
        single_block or (by_ndim == 1 and runs_are_sequential(lab["spec"]["v"]))
    )
    methods = [None, "map-reduce", "cohorts"] + (["blockwise"] if blockwise_ok else [])
    for _ in range(nplans):
        m = draw(st.sampled_from(methods))
        plan = {
            "method": m,
            "reindex": draw(st.sampled_from([None, None, True, False])),
            "chunks": chunks,
            "by_dask": by_dask,
            "by_chunks": by_chunks,
        }
        if plan not in plans:
            plans.append(plan)
    case["plans"] = plans
    case["layout"] = draw(st.sampled_from([None, None, None, "F", "strided"]))
    return case


def strategy(tier):
    return reduce_cases(tier, all_missing_ok=True)


def block_structure(case):
    """(nblocks along reduced axes, spanning?, absent?, all-missing block?)"""
    by = case["by"]
    sh = by["sh"]
    nb = len(case["arr"]["sh"]) - len(sh)
    chunks = case["plans"][0]["chunks"][nb:]
    labs = np.array([None if v == "nan" else str(v) for v in by["v"]], dtype=object).reshape(sh)
    nblocks = int(np.prod([len(c) for c in chunks]))
    blocks = []
    import itertools

    for idx in itertools.product(*[gen.blocks_of(c) for c in chunks]):
        sl = tuple(slice(a, b) for a, b in idx)
        blocks.append(set(x for x in labs[sl].reshape(-1).tolist()))
    alllabs = set().union(*blocks) - {None}
    spanning = any(sum(1 for b in blocks if lab in b) >= 2 for lab in alllabs)
    absent = any(any(lab not in b for b in blocks) for lab in alllabs)
    allmissing = any(b <= {None} for b in blocks)
    return nblocks, spanning, absent, allmissing


def nan_group_mask(arr, by, groups, func):
    """boolean mask (batch..., ngroups): True where the comparison is *specified*"""
    if func not in ARG_FUNCS or arr.dtype.kind != "f":
        return None
    nbatch = arr.ndim - by.ndim
    flat = arr.reshape(arr.shape[:nbatch] + (-1,))
    byf = np.broadcast_to(by, arr.shape[nbatch:]).reshape(-1)
    mask = np.ones(flat.shape[:-1] + (len(groups),), dtype=bool)
    for gi, g in enumerate(np.asarray(groups).tolist()):
        sel = byf == g
        if not sel.any():
            continue
        members = flat[..., sel]
        isn = np.isnan(members)
        if func in ("argmax", "argmin"):
            mask[..., gi] = ~isn.any(axis=-1)
        else:
            mask[..., gi] = ~isn.all(axis=-1)
    return mask


def compare_results(out, func, dtype, eager_val, chunk_val, plan_label, spec_mask=None, sigextra=()):
    eres, egroups = eager_val
    cres, cgroups = chunk_val
    rtol, atol = tol_for(func, dtype)
    if len(egroups) != len(cgroups) or not all(groups_match(c, e) for c, e in zip(cgroups, egroups)):
        out.add(("groups", plan_label, *sigextra), f"chunked groups {cgroups!r} != eager {egroups!r} [{plan_label}]")
        return False
    if eres.shape != cres.shape:
        out.add(("shape", plan_label, *sigextra), f"chunked shape {cres.shape} != eager {eres.shape} [{plan_label}]")
        return False
    if eres.dtype != cres.dtype and eres.size:
        out.add(("dtype", plan_label.split(",")[0], *sigextra), f"func={func}: chunked dtype {cres.dtype} != eager dtype {eres.dtype} [{plan_label}] (input {dtype})")
    if spec_mask is not None and spec_mask.shape == eres.shape:
        ok = close(cres, eres, rtol, atol) | ~spec_mask
        good = bool(ok.all())
    else:
        good = arrays_match(cres, eres, rtol, atol)
    if not good:
        out.add(
            ("value", func, plan_label, *sigextra),
            f"func={func} [{plan_label}] chunked {np.asarray(cres).tolist()!r} != eager {np.asarray(eres).tolist()!r}",
        )
    return good


def plan_label(plan):
    return f"method={plan['method']},reindex={plan['reindex']},bydask={bool(plan.get('by_dask'))}"


def execute(case) -> Outcome:
    out = Outcome()
    arr = relayout(dec(case["arr"]), case.get("layout"))
    by = relayout(dec(case["by"]), case.get("layout"))
    func = case["func"]
    kw = reduce_kwargs(case)
    engine = case.get("engine")
    out.label(f"func={func}", f"engine={engine}", f"dtype={arr.dtype.str}", f"layout={case.get('layout')}")
    e = eager_reduce(arr, [by], kw, engine=engine)
    if not e.ok:
        out.label(f"eager-{e.kind}")
        return out
    nblocks, spanning, absent, allmissing = block_structure(case)
    out.nontrivial = nblocks >= 2 and (spanning or absent or allmissing)
    out.label(f"nblocks={min(nblocks, 9)}")
    mask = nan_group_mask(arr, by, e.value[1][0], func)
    for plan in case["plans"]:
        pl = plan_label(plan)
        c = chunked_reduce(arr, [by], kw, plan, engine=engine)
        if c.kind == "refusal":
            out.label(f"refusal:method={plan['method']}")
            continue
        if c.kind == "error":
            et, fr = c.errsig()
            out.add(("exception", et, fr), f"{c.describe()} [{pl}] func={func} engine={engine}")
            continue
        out.label(f"value:method={plan['method']},reindex={plan['reindex']}")
        if plan.get("by_dask"):
            out.label("by_dask")
        allmissing = by.dtype.kind == "f" and bool(np.isnan(by).all())
        compare_results(out, func, arr.dtype, e.value, c.value, pl, mask, sigextra=("all-labels-missing",) if allmissing else ())
    return out


_ = unnum
