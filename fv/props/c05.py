"""C05 — one output slot per requested label; fill_value and min_count honoured exactly."""

from __future__ import annotations

import numpy as np
from hypothesis import strategies as st

from .. import gen
from ..base import Outcome
from ..cmp import close, groups_match, tol_for
from ..codec import dec, unnum
from ..floxcall import chunked_reduce, eager_reduce, reduce_kwargs
from ..ref import ARG_FUNCS, UNSPEC, ref_1d

ID = "C05"
RULE = (
    "Hypothesis: labels (int/float+NaN/str) x expected_groups relation in {superset, subset, disjoint, equal, mixed; "
    "given sorted or unsorted; as array/list/Index} x sort in {True, False} x fill_value in {NaN, 0, -3, 1e6, False, "
    "None (only when every requested label occurs and nothing is masked)} x min_count in {None, 0, 1, 2, 99} x all "
    "decomposable reductions x engines x {eager + 2 drawn chunked plans}. Oracle: slot model from the property text: one "
    "slot per requested label in requested order (ascending if sort), returned labels == requested; absent slot == fill "
    "(numerically, so 0/False must survive); count_nonmissing < min_count => fill; other slots == per-group NumPy "
    "reference; deleting unrequested / missing-label elements changes nothing (metamorphic twin, not for arg*). "
    "Unspecified (not asserted): present-but-all-NaN group with a fill and min_count=None. Non-trivial = an absent "
    "requested label, or a group masked by min_count, or an unrequested present label."
)
BUDGET = {"quick": 600, "thorough": 4000}
ASSUMPTIONS = [
    "fill values not representable in the result dtype family are not generated (negative fill for unsigned data, 1e6 for 8/16-bit min/max)",
    "arg-reductions get integer fills or NaN (NaN widens the index result to float64)",
]

FUNCS = [
    "sum", "nansum", "prod", "nanprod", "mean", "nanmean", "var", "nanvar", "std", "nanstd",
    "max", "nanmax", "min", "nanmin", "argmax", "nanargmax", "argmin", "nanargmin",
    "nanfirst", "nanlast", "first", "last", "count", "any", "all",
]  # fmt: skip


@st.composite
def cases(draw, tier="quick"):
    func = draw(st.sampled_from(FUNCS))
    if func in ("any", "all"):
        dt = "|b1"
    else:
        dt = draw(st.sampled_from(["<f8", "<f8", "<f8", "<f4", "<i8", "<i8", "|i1", "<u8", "|u1", "|b1"]))
    n = draw(st.integers(1, 20))
    batch = draw(st.sampled_from([[], [], [2]]))
    nb = 2 if batch else 1
    vals = gen.draw_values(draw, n * nb, dt, func, nan_p=0.35)
    lab = gen.draw_labels(draw, n, kinds=["int", "negint", "float", "floatint", "floatint", "str", "u1", "i2"], max_groups=5)
    case = {"arr": {"dt": dt, "sh": batch + [n], "v": vals}, "by": lab["spec"], "func": func}
    if gen.func_family(func) == "var":
        case["ddof"] = draw(st.sampled_from([None, 0, 1]))
    present = []
    for v in lab["spec"]["v"]:
        if v != "nan" and v not in present:
            present.append(v)
    extra = {"int": [20, 21, -1, 13], "negint": [100, -100, 4], "float": [99.5, -99.5, 0.25], "floatint": [5.0, 6.0, -2.0, 3.5], "u1": [7, 100, 255], "i2": [7, -100, 4],
             "str": ["y", "z", "A"]}[lab["kind"]]  # fmt: skip
    rel = draw(st.sampled_from(["superset", "superset", "subset", "disjoint", "equal", "mixed"]))
    if not present and rel in ("subset", "equal", "mixed"):
        rel = "disjoint"
    if rel == "equal":
        labels = list(present)
    elif rel == "superset":
        labels = list(present) + draw(st.lists(st.sampled_from(extra), min_size=1, max_size=3, unique=True))
    elif rel == "subset":
        labels = list(draw(st.permutations(present))[: draw(st.integers(1, len(present)))])
    elif rel == "disjoint":
        labels = draw(st.lists(st.sampled_from(extra), min_size=1, max_size=3, unique=True))
    else:
        labels = list(draw(st.permutations(present))[: draw(st.integers(1, len(present)))]) + draw(
            st.lists(st.sampled_from(extra), min_size=1, max_size=2, unique=True)
        )
    if lab["kind"] in ("int", "negint", "float", "floatint", "i2") and draw(st.integers(0, 5)) == 0:
        # a long list of requested labels, most of them absent (numpy.isin / searchsorted change algorithm with its length)
        base = 40 if lab["kind"] != "float" else 40.25
        labels = labels + [base + i * (1 if lab["kind"] != "float" else 0.5) for i in range(draw(st.integers(14, 26)))]
    labels = list(draw(st.permutations(labels)))  # possibly unsorted
    if draw(st.booleans()):
        labels = sorted(labels)
    case["expected"] = {"labels": labels, "as": draw(st.sampled_from(["array", "list", "index"]))}
    if lab["kind"] == "floatint":
        # request integers (incl. consecutive runs) while unrequested fractional labels lie in between
        ints = [x for x in labels if float(x).is_integer()]
        if ints and draw(st.booleans()):
            if draw(st.booleans()):
                lo, hi = int(min(ints)), int(max(ints))
                ints = list(range(lo, hi + 1))
            case["expected"] = {"labels": [int(x) for x in ints], "as": case["expected"]["as"], "cast": "int"}
    if lab["kind"] in ("int", "negint", "u1", "i2") and present and draw(st.integers(0, 3)) == 0:
        # requested labels given as a pandas RangeIndex (any start / step, possibly partly outside the data)
        start = int(min(present)) + draw(st.integers(-1, 1))
        step = draw(st.sampled_from([1, 1, 2, 3, -1]))
        cnt = draw(st.integers(1, 5))
        stop = start + step * cnt
        case["expected"] = {"labels": list(range(start, stop, step)), "as": "range", "range": [start, stop, step]}
    case["sort"] = draw(st.sampled_from([True, True, False]))
    case["min_count"] = draw(st.sampled_from([None, None, 0, 1, 2, 99]))
    fills = ["nan", 0, -3, 1000000, False]
    if "u" in dt:
        fills = ["nan", 0, 7, False]
    if dt in ("|i1", "|u1", "|b1"):
        fills = [f for f in fills if f != 1000000]
    if func in ARG_FUNCS:
        fills = [0, -1, 7, "nan"]
    case["fill_value"] = draw(st.sampled_from(fills))
    case["engine"] = draw(st.sampled_from(["numpy", "numpy", "flox", "numbagg", None, None]))
    # chunked plans
    chunks = [[b] for b in batch] + [gen.draw_chunks(draw, n, max_blocks=8)]
    plans = []
    for _ in range(2):
        m = draw(st.sampled_from([None, "map-reduce", "map-reduce", "cohorts"]))
        plans.append({
            "method": m, "reindex": draw(st.sampled_from([None, True, False])), "chunks": chunks,
            "by_dask": draw(st.integers(0, 4)) == 0, "by_chunks": None,
        })  # fmt: skip
    case["plans"] = plans
    return case


def strategy(tier):
    return cases(tier)


def slot_model(case, arr, by):
    """-> (keys in output order, per-row list of expected cell or UNSPEC, flags)"""
    func = case["func"]
    requested = [unnum(x) for x in case["expected"]["labels"]]
    sort = case.get("sort", True)
    fill = unnum(case["fill_value"]) if case.get("fill_value") is not None else None
    mc = case.get("min_count")
    rows = arr.reshape(-1, arr.shape[-1])
    model = []
    flags = {"absent": False, "masked": False, "unrequested": False}
    present = set()
    for x in by.tolist():
        if not (isinstance(x, float) and np.isnan(x)):
            present.add(x)
    if any(p not in requested for p in present):
        flags["unrequested"] = True
    keys = None
    for r in rows:
        keys, res, nmem, nvalid = ref_1d(r, by, func, requested=requested, sort=sort, ddof=case.get("ddof") or 0)
        cells = []
        for k, v, nm, nv in zip(keys, res, nmem, nvalid):
            if nm == 0:
                flags["absent"] = True
                cells.append(("absent", fill))
            elif mc is not None and mc > 0 and nv < mc:
                flags["masked"] = True
                cells.append(("mincount", fill))
            elif mc is None and nv == 0:
                cells.append(("unspec", UNSPEC))  # implicit masking: property is silent
            elif nv == 0 and mc == 0 and func in ("nanmin", "nanmax"):
                cells.append(("value-nanminmax-allnan-mc0", v))
            else:
                cells.append(("value", v))
        model.append(cells)
    return keys, model, flags


def classify_fill(kind, case, result):
    fill = unnum(case["fill_value"]) if case.get("fill_value") is not None else None
    if kind == "absent" and case.get("min_count") == 0:
        return "min_count=0"
    isnan = isinstance(fill, float) and np.isnan(fill)
    nonbool = fill is not None and (isnan or fill not in (0, 1))
    if nonbool and (result.dtype == bool or case["func"] in ("any", "all")):
        return "fill-cast-to-bool"
    return "other"


def check(out, case, arr, res, keys, model, where):
    func = case["func"]
    result, (groups,) = res.value
    if not groups_match(groups, np.asarray(keys)):
        out.add(("groups", where.split(":")[0]), f"[{where}] returned labels {groups!r} != requested order {keys!r}")
        return
    want_shape = arr.shape[:-1] + (len(keys),)
    if result.shape != want_shape:
        out.add(("shape", where.split(":")[0]), f"[{where}] shape {result.shape} != {want_shape}")
        return
    rtol, atol = tol_for(func, arr.dtype)
    r2 = result.reshape(-1, len(keys))
    seen = set()
    for irow, cells in enumerate(model):
        for i, (kind, want) in enumerate(cells):
            if want is UNSPEC:
                continue
            got = r2[irow][i]
            if kind in ("absent", "mincount"):
                if want is None:
                    continue  # no fill supplied although needed: generator never does this
                ok = bool(close(np.asarray(got), np.asarray(float(want))))
                sig = (f"{kind}-fill", classify_fill(kind, case, result))
                if not ok and sig not in seen:
                    seen.add(sig)
                    out.add(
                        sig,
                        f"[{where}] func={func} slot {keys[i]!r} ({kind}) holds {got!r}, expected fill_value "
                        f"{want!r} (min_count={case.get('min_count')}, dtype={result.dtype})",
                    )
            else:
                if not bool(np.all(close(np.asarray(got), np.asarray(want), rtol, atol))):
                    method = where.split("method=")[1].split(",")[0] if "method=" in where else "-"
                    sig = ("value", where.split(":")[0], f"sort={case.get('sort')}", f"method={method}")
                    if kind == "value-nanminmax-allnan-mc0":
                        sig = ("value-nanminmax-allnan-explicit-min_count=0",)
                    if sig not in seen:
                        seen.add(sig)
                        out.add(sig, f"[{where}] func={func} slot {keys[i]!r}: got {got!r}, reference {want!r}")


def execute(case) -> Outcome:
    out = Outcome()
    arr = dec(case["arr"])
    by = dec(case["by"])
    func = case["func"]
    kw = reduce_kwargs(case)
    engine = case.get("engine")
    keys, model, flags = slot_model(case, arr, by)
    out.nontrivial = flags["absent"] or flags["masked"] or flags["unrequested"]
    out.label(f"func={func}", f"min_count={case.get('min_count')}", f"fill={case.get('fill_value')}", f"sort={case.get('sort')}")
    for k, v in flags.items():
        if v:
            out.label(k)

    e = eager_reduce(arr, [by], kw, engine=engine)
    if e.kind == "error":
        et, fr = e.errsig()
        out.add(("exception", et, fr), f"eager {e.describe()} func={func} engine={engine}")
    elif e.ok:
        check(out, case, arr, e, keys, model, "eager")
        # metamorphic twin: drop unrequested and missing-label elements
        if func not in ARG_FUNCS and flags["unrequested"] or (by.dtype.kind == "f" and np.isnan(by).any() and func not in ARG_FUNCS):
            requested = set(unnum(x) for x in case["expected"]["labels"])
            keep = np.array([(x in requested) for x in by.tolist()], dtype=bool)
            if keep.any() and not keep.all():
                t = eager_reduce(arr[..., keep], [by[keep]], kw, engine=engine)
                if t.ok:
                    rtol, atol = tol_for(func, arr.dtype)
                    a, b = e.value[0], t.value[0]
                    spec = np.array([[c[0].startswith("value") for c in cells] for cells in model]).reshape(a.shape)
                    if a.shape != b.shape or not bool(np.all(close(a, b, rtol, atol) | ~spec)):
                        out.add(
                            ("twin", func),
                            f"func={func}: removing unrequested/missing-label elements changed the result: {a.tolist()} vs {b.tolist()}",
                        )
    else:
        out.label("eager-refusal")
    for plan in case["plans"]:
        pl = f"chunked:method={plan['method']},reindex={plan['reindex']},bydask={plan['by_dask']}"
        c = chunked_reduce(arr, [by], kw, plan, engine=engine)
        if c.kind == "refusal":
            out.label(f"refusal:{plan['method']}")
            continue
        if c.kind == "error":
            et, fr = c.errsig()
            out.add(("exception", et, fr), f"{c.describe()} [{pl}] func={func} engine={engine}")
            continue
        out.label(f"value:{plan['method']}")
        check(out, case, arr, c, keys, model, pl)
    return out
