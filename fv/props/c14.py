"""C14 — no side effects; results independent of call history and of co-computed results."""

from __future__ import annotations

import numpy as np
from hypothesis import strategies as st

from .. import gen
from ..base import REFUSALS, Outcome, innermost_flox_frame
from ..cmp import arrays_match
from ..codec import dec, unnum
from ..sched import digest

ID = "C14"
RULE = (
    "Hypothesis, two case kinds. (history) model-based call sequences of 2-8 (thorough 2-20) steps over a shared pool of "
    "argument objects (value arrays, label arrays incl. same-shape/dtype arrays with different content, expected_groups "
    "as ndarray/Index/list, user Aggregation objects and registry Aggregation objects passed as func); steps = eager / "
    "chunked groupby_reduce with arbitrary kwargs, groupby_scan, xarray_reduce, rechunk_for_blockwise / rechunk_for_cohorts "
    "(array and xarray flavours), find_group_cohorts. Invariants after every step: content digests of all pooled objects "
    "unchanged; structural snapshot of flox.aggregations.AGGREGATIONS unchanged. At the end every step (histories > 8 steps: the last and 6 drawn ones) "
    "is evaluated FIRST IN A FRESH PROCESS (forked from a pristine 'import flox' server) and must equal what "
    "the long-lived process returned; two drawn steps are also re-run in-process. (cocompute) a chunked base call plus "
    "1-2 variants differing in exactly one ingredient from {values, labels, reduction, ddof, q, min_count, fill_value, "
    "dtype, method, engine, sort} (also pairs of scans): dask.compute(r1, r2[, r3]) in both orders == each computed alone. "
    "Non-trivial = (history) >=2 steps sharing an argument object; (cocompute) the alone-results differ."
)
BUDGET = {"quick": 88, "thorough": 600}
WALL = {"quick": 600, "thorough": 3400}
ASSUMPTIONS = [
    "fresh state = a process forked from a server that imported flox and its dependencies but never called into flox",
    "histories are finite (<= 8 steps quick, <= 20 thorough)",
]

RED_FUNCS = ["sum", "nansum", "mean", "nanmean", "max", "nanmax", "min", "nanmin", "var", "nanstd", "prod", "count",
             "argmax", "nanargmin", "nanfirst", "nanlast", "first", "median", "nanmedian", "all"]  # fmt: skip
REGISTRY_ATTRS = ["sum_", "nansum", "mean", "nanmean", "max_", "nanmin", "var", "count", "argmax", "nanlast"]


# ----------------------------------------------------------------------------- generation


@st.composite
def histories(draw, tier="quick"):
    n = draw(st.integers(4, 14))
    arrays = []
    for _ in range(draw(st.integers(2, 3))):
        dt = draw(st.sampled_from(["<f8", "<f8", "<i8", "<f4", "|b1"]))
        arrays.append({"dt": dt, "sh": [n], "v": gen.draw_values(draw, n, dt, "sum")})
    ngroups = draw(st.integers(1, 4))
    codes = gen.draw_label_codes(draw, n, ngroups, draw(st.sampled_from(["random", "periodic", "blocks"])))
    codes2 = list(draw(st.permutations(codes)))
    runs = sorted(codes)
    # a second sequential label array of the same shape/dtype (and same last label) but other run borders:
    # a cache keyed on shape instead of content would serve a stale plan
    runs2 = list(runs)
    bnds = [i for i in range(1, n) if runs[i] != runs[i - 1]]
    if bnds:
        b = draw(st.sampled_from(bnds))
        if b + 1 < n and runs[b + 1] == runs[b]:
            runs2[b] = runs[b - 1]  # the group border moves one element to the right
        elif b - 2 >= 0 and runs[b - 2] == runs[b - 1]:
            runs2[b - 1] = runs[b]  # ... or to the left
    labels = [{"dt": "<i8", "sh": [n], "v": codes}, {"dt": "<i8", "sh": [n], "v": codes2}, {"dt": "<i8", "sh": [n], "v": runs},
              {"dt": "<i8", "sh": [n], "v": runs2}]
    present = sorted(set(codes))
    expected = [
        {"labels": present, "as": "array"},
        {"labels": present + [7], "as": "index"},
        {"labels": list(reversed(present)) + [9], "as": "list"},
        {"labels": [8] + list(reversed(present)), "as": "array"},  # an UNSORTED writable ndarray (must not be sorted in place)
    ]
    maxsteps = 6 if tier == "quick" else 18
    nsteps = draw(st.integers(2, maxsteps))
    chunkings = [gen.draw_chunks(draw, n, max_blocks=6), gen.draw_chunks(draw, n, max_blocks=6)]
    steps = [draw(step(n, len(arrays), chunkings)) for _ in range(nsteps)]
    # explicit cache-poisoning probe: the same helper / plan twice with equal chunks and equal label shape/dtype but
    # different label content, the old chunk border sitting next to the moved group border
    if bnds and draw(st.integers(0, 2)) == 0:
        cb = min(max(1, b + draw(st.sampled_from([-1, 0, 1]))), n - 1)
        probe_chunks = [cb, n - cb]
        kind = draw(st.sampled_from(["rechunk_blockwise", "rechunk_blockwise", "reduce"]))
        first, second = draw(st.sampled_from([(2, 3), (3, 2)]))
        for byi in (first, second):
            if kind == "reduce":
                steps.append({"op": "reduce", "arr": 0, "by": byi, "chunks": probe_chunks, "func": draw(st.sampled_from(["sum", "first", "nanmax"])),
                              "expected": None, "sort": None, "ddof": None, "method": "blockwise", "engine": None})
            else:
                steps.append({"op": "rechunk_blockwise", "arr": 0, "by": byi, "chunks": probe_chunks, "xr": draw(st.booleans())})
    return {"kind": "history", "n": n, "arrays": arrays, "labels": labels, "expected": expected, "steps": steps,
            "fresh_pick": draw(st.integers(0, 10**6))}  # fmt: skip


@st.composite
def step(draw, n, narr, chunkings):
    op = draw(st.sampled_from(["reduce"] * 6 + ["scan", "scan", "rechunk_blockwise", "rechunk_blockwise", "rechunk_cohorts", "xarray", "xarray", "cohorts_planner"]))
    s = {"op": op, "arr": draw(st.integers(0, narr - 1)), "by": draw(st.integers(0, 3))}
    chunked = draw(st.booleans())
    # chunkings are pooled too, so that later calls repeat earlier (chunks, shape) combinations with other label content
    s["chunks"] = draw(st.sampled_from(chunkings)) if (chunked or op.startswith("rechunk") or op == "cohorts_planner") else None
    if op == "reduce":
        f = draw(st.integers(0, 9))
        if f == 0:
            s["func"] = {"user": draw(st.integers(0, 1))}
        elif f == 1:
            s["func"] = {"registry": draw(st.sampled_from(REGISTRY_ATTRS))}
        else:
            s["func"] = draw(st.sampled_from(RED_FUNCS))
        s["expected"] = draw(st.sampled_from([None, None, 0, 1, 2, 3, 3]))
        s["sort"] = draw(st.sampled_from([None, None, False]))
        if s["expected"] is not None:
            s["fill_value"] = draw(st.sampled_from(["nan", 0, -1]))
            s["min_count"] = draw(st.sampled_from([None, None, 1, 2]))
        s["ddof"] = draw(st.sampled_from([None, 1]))
        s["method"] = draw(st.sampled_from([None, None, "map-reduce", "cohorts", "blockwise"])) if chunked else None
        s["engine"] = draw(st.sampled_from([None, None, "numpy", "flox", "numbagg"]))
    elif op == "scan":
        s["func"] = draw(st.sampled_from(["nancumsum", "ffill", "bfill"]))
    elif op == "xarray":
        s["func"] = draw(st.sampled_from(["sum", "mean", "max", "count", "var", "first"]))
        s["dataset"] = draw(st.booleans())
        s["skipna"] = draw(st.sampled_from([None, True, False]))
    elif op == "rechunk_cohorts":
        s["force"] = draw(st.integers(0, 3))
        s["chunksize"] = draw(st.sampled_from([None, 2, 3]))
        s["xr"] = draw(st.booleans())
    elif op == "rechunk_blockwise":
        s["xr"] = draw(st.booleans())
    elif op == "cohorts_planner":
        s["merge"] = draw(st.booleans())
    return s


INGREDIENTS = ["values", "labels", "func", "ddof", "q", "min_count", "fill_value", "dtype", "method", "engine", "sort", "scan-values", "scan-labels", "scan-func"]


@st.composite
def cocomputes(draw, tier="quick"):
    n = draw(st.integers(3, 14))
    dt = draw(st.sampled_from(["<f8", "<f8", "<i8", "<f4"]))
    ingredient = draw(st.sampled_from(INGREDIENTS))
    vals = gen.draw_values(draw, n, dt, "sum", nan_p=0.15)
    vals2 = gen.draw_values(draw, n, dt, "sum", nan_p=0.15)
    ngroups = draw(st.integers(2, 4))
    codes = gen.draw_label_codes(draw, n, ngroups, draw(st.sampled_from(["random", "periodic", "blocks", "runs"])))
    codes2 = list(draw(st.permutations(codes)))
    chunks = gen.draw_chunks(draw, n, max_blocks=6)
    if ingredient == "q":
        chunks = [n]
    base = {
        "func": draw(st.sampled_from(["sum", "nansum", "mean", "max", "nanmin", "count", "argmax", "nanargmin", "nanlast", "var", "nanstd"])),
        "method": draw(st.sampled_from([None, "map-reduce", "cohorts"])),
        "engine": draw(st.sampled_from([None, "numpy"])),
    }
    third = draw(st.sampled_from([None, None, "values", "labels", "func"]))
    return {"kind": "cocompute", "ingredient": ingredient, "third": third, "arr": {"dt": dt, "sh": [n], "v": vals},
            "arr2": {"dt": dt, "sh": [n], "v": vals2}, "by": {"dt": "<i8", "sh": [n], "v": codes},
            "by2": {"dt": "<i8", "sh": [n], "v": codes2}, "chunks": chunks, "base": base,
            "present": sorted(set(codes))}  # fmt: skip


def strategy(tier):
    return st.one_of(histories(tier), cocomputes(tier), cocomputes(tier))


# ----------------------------------------------------------------------------- pool & snapshots


def user_aggs():
    from flox.aggregations import Aggregation

    return [
        Aggregation("usermean", numpy="nanmean", chunk=("nansum", "nanlen"), combine=("sum", "sum"),
                    finalize=_div, fill_value=(0, 0), dtypes=(None, np.intp), final_dtype=np.floating),
        Aggregation("usermax", numpy="nanmax", chunk="nanmax", combine="nanmax", fill_value=-np.inf, preserves_dtype=True),
    ]  # fmt: skip


def _div(a, b):
    with np.errstate(all="ignore"):
        return a / b


def build_pool(case):
    import pandas as pd

    from ..floxcall import expected_obj

    pool = {
        "arrays": [dec(a) for a in case["arrays"]],
        "labels": [dec(b) for b in case["labels"]],
        "expected": [expected_obj(e, "<i8") for e in case["expected"]],
        "user": user_aggs(),
    }
    _ = pd
    return pool


def agg_snapshot(agg) -> str:
    def norm(v):
        if callable(v) and not isinstance(v, type):
            return f"<callable {getattr(v, '__module__', '?')}.{getattr(v, '__qualname__', repr(v))}>"
        if isinstance(v, dict):
            return {str(k): norm(x) for k, x in sorted(v.items(), key=lambda kv: str(kv[0]))}
        if isinstance(v, (tuple, list)):
            return [norm(x) for x in v]
        if isinstance(v, float) and np.isnan(v):
            return "nan"
        return repr(v)

    d = getattr(agg, "__dict__", None)
    if d is None:
        return repr(agg)
    return repr({k: norm(v) for k, v in sorted(d.items()) if k not in ("new_dims", "num_new_vector_dims")})


def registry_snapshot():
    from flox.aggregations import AGGREGATIONS

    return {name: agg_snapshot(a) for name, a in AGGREGATIONS.items()}


def pool_digests(pool):
    d = {}
    for i, a in enumerate(pool["arrays"]):
        d[f"array[{i}]"] = digest(a)
    for i, a in enumerate(pool["labels"]):
        d[f"labels[{i}]"] = digest(a)
    for i, e in enumerate(pool["expected"]):
        d[f"expected[{i}]"] = digest(list(e) if isinstance(e, list) else e) + type(e).__name__
    for i, u in enumerate(pool["user"]):
        d[f"user_agg[{i}]"] = agg_snapshot(u)
    return d


# ----------------------------------------------------------------------------- steps


def norm_result(x):
    """reduce any result to picklable plain data"""
    import dask
    import pandas as pd
    import xarray as xr

    if isinstance(x, (xr.DataArray, xr.Dataset)):
        x = x.compute()
        if isinstance(x, xr.Dataset):
            return {"ds": {k: (list(v.dims), np.asarray(v.values)) for k, v in x.data_vars.items()},
                    "coords": {k: np.asarray(v.values) for k, v in x.coords.items()}}  # fmt: skip
        return {"da": (list(x.dims), np.asarray(x.values)), "coords": {k: np.asarray(v.values) for k, v in x.coords.items()}}
    if isinstance(x, tuple):
        return tuple(norm_result(y) for y in x)
    if isinstance(x, dict):
        return {repr(k): norm_result(v) for k, v in x.items()}
    if isinstance(x, list):
        return [norm_result(y) for y in x]
    if dask.is_dask_collection(x):
        with dask.config.set(scheduler="sync"):
            return {"chunks": [list(c) for c in x.chunks], "values": np.asarray(x.compute())}
    if isinstance(x, pd.Index):
        return np.asarray(x)
    if isinstance(x, np.ndarray):
        return x
    return x


def same(a, b) -> bool:
    if type(a) is not type(b) and not (isinstance(a, (np.ndarray, np.generic)) and isinstance(b, (np.ndarray, np.generic))):
        return False
    if isinstance(a, dict):
        return a.keys() == b.keys() and all(same(a[k], b[k]) for k in a)
    if isinstance(a, (tuple, list)):
        return len(a) == len(b) and all(same(x, y) for x, y in zip(a, b))
    if isinstance(a, np.ndarray):
        return a.dtype == b.dtype and arrays_match(a, b)
    if isinstance(a, float) and isinstance(b, float) and np.isnan(a) and np.isnan(b):
        return True
    return a == b


def run_step(pool, s):
    """-> ("value", normalised) | ("refusal", type name) | ("error", type name, frame)"""
    try:
        return ("value", norm_result(_do_step(pool, s)))
    except REFUSALS as e:
        return ("refusal", type(e).__name__)
    except Exception as e:  # noqa: BLE001
        return ("error", type(e).__name__, innermost_flox_frame(e))


def _do_step(pool, s):
    import dask.array as da
    import xarray as xr
    from flox import core as fc
    from flox import xarray as fx
    import flox.aggregations as fa

    arr = pool["arrays"][s["arr"]]
    by = pool["labels"][s["by"]]
    op = s["op"]
    darr = da.from_array(arr, chunks=(tuple(s["chunks"]),)) if s.get("chunks") else arr
    if op == "reduce":
        f = s["func"]
        if isinstance(f, dict):
            func = pool["user"][f["user"]] if "user" in f else getattr(fa, f["registry"])
        else:
            func = f
        kw = {}
        if s.get("expected") is not None:
            kw["expected_groups"] = pool["expected"][s["expected"]]
            kw["fill_value"] = unnum(s["fill_value"])
            if s.get("min_count") is not None:
                kw["min_count"] = s["min_count"]
        if s.get("sort") is not None:
            kw["sort"] = s["sort"]
        if s.get("ddof") is not None and isinstance(func, str) and ("var" in func or "std" in func):
            kw["finalize_kwargs"] = {"ddof": s["ddof"]}
        if s.get("method") is not None:
            kw["method"] = s["method"]
        return fc.groupby_reduce(darr, by, func=func, engine=s.get("engine"), **kw)
    if op == "scan":
        return fc.groupby_scan(darr, by, func=s["func"])
    if op == "cohorts_planner":
        m, c = fc.find_group_cohorts(by, (tuple(s["chunks"]),), merge=s["merge"])
        return (m, {tuple(k): list(v) for k, v in c.items()})
    if op == "rechunk_blockwise":
        lab = pool["labels"][s["by"] if s["by"] in (2, 3) else 2]
        if s.get("xr"):
            obj = xr.DataArray(darr, dims=["x"], name="v")
            return fx.rechunk_for_blockwise(obj, "x", xr.DataArray(lab, dims=["x"], name="lab"))
        return fc.rechunk_for_blockwise(darr, axis=0, labels=lab)
    if op == "rechunk_cohorts":
        force = [int(by[s["force"] % len(by)])]
        if s.get("xr"):
            obj = xr.DataArray(darr, dims=["x"], name="v")
            return fx.rechunk_for_cohorts(obj, "x", xr.DataArray(by, dims=["x"], name="lab"), force_new_chunk_at=force,
                                          chunksize=s.get("chunksize"))  # fmt: skip
        return fc.rechunk_for_cohorts(darr, axis=0, labels=by, force_new_chunk_at=force, chunksize=s.get("chunksize"))
    if op == "xarray":
        v = xr.DataArray(darr, dims=["x"], name="v", attrs={"a": 1})
        lab = xr.DataArray(by, dims=["x"], name="lab")
        obj = xr.Dataset({"v": v, "w": xr.DataArray(pool["arrays"][0], dims=["x"])}) if s.get("dataset") else v
        return fx.xarray_reduce(obj, lab, func=s["func"], skipna=s.get("skipna"))
    raise KeyError(op)


def fresh_eval(case, idx):
    """executed in the fresh process: rebuild the pool, run only step idx"""
    pool = build_pool(case)
    return run_step(pool, case["steps"][idx])


# ----------------------------------------------------------------------------- execute


def execute(case) -> Outcome:
    out = Outcome()
    out.label(f"kind={case['kind']}")
    if case["kind"] == "history":
        return exec_history(case, out)
    return exec_cocompute(case, out)


def exec_history(case, out):
    from ..fresh import fresh_call

    pool = build_pool(case)
    steps = case["steps"]
    d0 = pool_digests(pool)
    r0 = registry_snapshot()
    results = []
    used = {}
    for i, s in enumerate(steps):
        res = run_step(pool, s)
        results.append(res)
        out.label(f"op={s['op']}", f"outcome={res[0]}")
        for key in (("arr", s["arr"]), ("by", s["by"])):
            used[key] = used.get(key, 0) + 1
        d1 = pool_digests(pool)
        if d1 != d0:
            changed = [k for k in d0 if d0[k] != d1[k]]
            out.add(("argument-modified", changed[0].split("[")[0], s["op"]), f"step {i} ({s}) modified its argument(s) {changed}")
            d0 = d1
        r1 = registry_snapshot()
        if r1 != r0:
            changed = [k for k in r0 if r0[k] != r1.get(k)]
            out.add(("registry-modified", s["op"]), f"step {i} ({s}) modified the aggregation registry entries {changed}")
            r0 = r1
    out.nontrivial = any(v >= 2 for v in used.values()) and len(steps) >= 2
    # in-process replay of two steps at the end of the history
    pick = case.get("fresh_pick", 0)
    for idx in {len(steps) - 1, pick % len(steps)}:
        again = run_step(pool, steps[idx])
        if not same(again, results[idx]):
            out.add(("history-dependent", "in-process", steps[idx]["op"]), f"step {idx} ({steps[idx]}) gave {brief(results[idx])} when first run but "
                    f"{brief(again)} at the end of the history")  # fmt: skip
    # fresh-process oracle
    fresh_idx = set(range(len(steps))) if len(steps) <= 8 else {len(steps) - 1} | {(pick // (7 + k)) % len(steps) for k in range(6)}
    for idx in sorted(fresh_idx):
        try:
            fresh = fresh_call("fv.props.c14", "fresh_eval", case, idx)
        except TimeoutError:
            out.label("fresh-eval-timeout-inconclusive")  # an overloaded machine is not a verdict
            continue
        out.label("fresh-eval")
        if not same(fresh, results[idx]):
            out.add(("history-dependent", "vs-fresh-process", steps[idx]["op"]), f"step {idx} ({steps[idx]}) returned {brief(results[idx])} after the "
                    f"history but {brief(fresh)} when made first in a fresh process")  # fmt: skip
    return out


def brief(r):
    s = repr(r)
    return s if len(s) < 400 else s[:400] + "..."


def variant_calls(case):
    """-> list of (name, callable returning lazy collection(s)) : base, variant[, third]"""
    import dask.array as da
    from flox import core as fc

    arr, arr2 = dec(case["arr"]), dec(case["arr2"])
    by, by2 = dec(case["by"]), dec(case["by2"])
    ch = (tuple(case["chunks"]),)
    base = dict(case["base"])
    ing = case["ingredient"]
    present = case["present"]

    def red(a, b, **over):
        kw = {"func": base["func"], "method": base["method"], "engine": base["engine"]}
        kw.update(over)
        fk = kw.pop("finalize_kwargs", None)
        if fk:
            kw["finalize_kwargs"] = fk
        return lambda: fc.groupby_reduce(da.from_array(a, chunks=ch), b, **kw)[0]

    def scan(a, b, f):
        return lambda: fc.groupby_scan(da.from_array(a, chunks=ch), b, func=f)

    if ing == "values":
        calls = [red(arr, by), red(arr2, by)]
    elif ing == "labels":
        calls = [red(arr, by), red(arr, by2)]
    elif ing == "func":
        other = {"sum": "nansum", "nansum": "sum", "mean": "sum", "max": "min", "nanmin": "nanmax", "count": "sum",
                 "argmax": "argmin", "nanargmin": "nanargmax", "nanlast": "nanfirst", "var": "std", "nanstd": "nanvar"}[base["func"]]  # fmt: skip
        calls = [red(arr, by), red(arr, by, func=other)]
    elif ing == "ddof":
        calls = [red(arr, by, func="var", finalize_kwargs={"ddof": 0}), red(arr, by, func="var", finalize_kwargs={"ddof": 1})]
    elif ing == "q":
        calls = [red(arr, by, func="nanquantile", method="blockwise", finalize_kwargs={"q": 0.25}),
                 red(arr, by, func="nanquantile", method="blockwise", finalize_kwargs={"q": 0.75})]  # fmt: skip
    elif ing == "min_count":
        calls = [red(arr, by, func="nansum", min_count=1), red(arr, by, func="nansum", min_count=3)]
    elif ing == "fill_value":
        ex = np.array(present + [50])
        calls = [red(arr, by, expected_groups=ex, fill_value=0), red(arr, by, expected_groups=ex, fill_value=-1)]
    elif ing == "dtype":
        calls = [red(arr, by, func="sum"), red(arr, by, func="sum", dtype=np.float32 if arr.dtype != np.float32 else np.float64)]
    elif ing == "method":
        calls = [red(arr, by, method="map-reduce"), red(arr, by, method="cohorts")]
    elif ing == "engine":
        calls = [red(arr, by, func="nansum", engine="numpy"), red(arr, by, func="nansum", engine="flox")]
    elif ing == "sort":
        ex = np.array(list(reversed(present)))
        calls = [red(arr, by, expected_groups=ex, sort=True, fill_value=0), red(arr, by, expected_groups=ex, sort=False, fill_value=0)]
    elif ing == "scan-values":
        calls = [scan(arr, by, "nancumsum"), scan(arr2, by, "nancumsum")]
    elif ing == "scan-labels":
        calls = [scan(arr, by, "ffill"), scan(arr, by2, "ffill")]
    else:
        calls = [scan(arr, by, "ffill"), scan(arr, by, "bfill")]
    third = case.get("third")
    if third == "values" and not ing.startswith("scan"):
        calls.append(red(arr2, by2))
    elif third == "labels":
        calls.append(red(arr, by2, func="nanmax"))
    elif third == "func":
        calls.append(red(arr, by, func="count"))
    return calls


def exec_cocompute(case, out):
    import dask

    from ..base import run

    ing = case["ingredient"]
    out.label(f"ingredient={ing}", f"third={case.get('third')}")
    lazies = []
    for c in variant_calls(case):
        r = run(c)
        if r.kind == "refusal":
            out.label("refusal")
            return out
        if r.kind == "error":
            out.label(f"error:{type(r.exc).__name__}")  # C19's business
            return out
        if not dask.is_dask_collection(r.value):
            out.label("not-lazy")
            return out
        lazies.append(r.value)

    def alone():
        with dask.config.set(scheduler="sync"):
            return [np.asarray(x.compute()) for x in lazies]

    a = run(alone)
    if not a.ok:
        out.label(f"alone-{a.kind}")
        return out
    alone_vals = a.value
    out.nontrivial = not (alone_vals[0].shape == alone_vals[1].shape and arrays_match(alone_vals[0], alone_vals[1]) and alone_vals[0].dtype == alone_vals[1].dtype)
    for order in ("forward", "reverse"):
        idx = list(range(len(lazies)))
        if order == "reverse":
            idx = idx[::-1]

        def together(idx=idx):
            with dask.config.set(scheduler="sync"):
                return dask.compute(*[lazies[i] for i in idx])

        t = run(together)
        if t.kind != "value":
            et, fr = t.errsig()
            out.add(("exception", et, fr), f"dask.compute of {len(lazies)} results together failed: {t.describe()} [ingredient={ing}]")
            continue
        for pos, i in enumerate(idx):
            got = np.asarray(t.value[pos])
            if got.shape != alone_vals[i].shape or got.dtype != alone_vals[i].dtype or not arrays_match(got, alone_vals[i]):
                out.add(("cocompute", ing if i < 2 else f"third={case.get('third')}"),
                        f"ingredient={ing}: result #{i} computed together ({order}) = {got.tolist()} but alone = {alone_vals[i].tolist()} "
                        f"[base={case['base']}]")  # fmt: skip
                break
    return out
