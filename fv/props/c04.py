"""C04 — chunk/combine/finalize is an exact decomposition; fills are neutral."""

from __future__ import annotations

import itertools
import operator
import warnings

import numpy as np
from hypothesis import strategies as st

from ..base import Outcome, run
from ..cmp import close, tol_for

ID = "C04"
RULE = (
    "Exhaustive small scope: for every registry aggregation with a block stage (sum nansum prod nanprod mean nanmean var "
    "nanvar std nanstd min nanmin max nanmax argmax argmin nanargmax nanargmin nanfirst nanlast count any all) and dtype "
    "class (float64 over {-2,0,1,NaN,+inf,-inf}; int64 over {-2,0,1}; bool), ALL ordered value sequences of length 1..4 "
    "(thorough: 1..5 and alphabet + {-0.5,3}) x ALL ordered splits into three parts incl. empty parts; each part is one "
    "dask block padded with a member of a second group and a missing-label element; plans: map-reduce reindex=True / "
    "False and cohorts, split_every=2 (two combine levels). All sequences of one length share a graph as rows of a batch "
    "dimension. Oracle: merged 3-block result == same call on one block == eager == NumPy reference of the whole group. "
    "Hypothesis part: user Aggregation objects from a grammar (chunk subset of {sum,nansum,prod,max,min,nanmax,nanmin,"
    "nanlen}, matching combine and fills, finalize in {first, a/b, a-b, a*b}), merged == one block == finalize(NumPy "
    "reductions). One evaluation = one (aggregation, dtype class, length, split, plan) structure covering every value "
    "sequence of that length (label 'rows' counts sequences). Non-trivial = >=2 non-empty parts or an empty part."
)
BUDGET = {"quick": 50, "thorough": 400}
ASSUMPTIONS = [
    "arg-reductions asserted on NaN-free rows (nanarg*: not-all-NaN rows) only, as in C01",
    "var/std compared with rtol=atol=1e-12; everything else exactly (values are small dyadic numbers)",
]

BUILTINS = [
    "sum", "nansum", "prod", "nanprod", "mean", "nanmean", "var", "nanvar", "std", "nanstd",
    "min", "nanmin", "max", "nanmax", "argmax", "argmin", "nanargmax", "nanargmin",
    "nanfirst", "nanlast", "count",
]  # fmt: skip
PLANS = [("map-reduce", True), ("map-reduce", False), ("cohorts", None)]


def alphabet(dtclass, tier):
    if dtclass == "f":
        a = [-2.0, 0.0, 1.0, np.nan, np.inf, -np.inf]
        if tier == "thorough":
            a += [-0.5, 3.0]
        return a
    if dtclass == "i":
        return [-2, 0, 1] + ([3] if tier == "thorough" else [])
    return [True, False]


def splits(n):
    for a in range(n + 1):
        for b in range(n - a + 1):
            yield [a, b, n - a - b]


def enumerate_cases(tier):
    maxn = 4 if tier == "quick" else 5
    for n in range(1, maxn + 1):
        for sp in splits(n):
            for dtclass in ("f", "i", "b"):
                funcs = ["any", "all", "count"] if dtclass == "b" else BUILTINS
                for func in funcs:
                    if dtclass == "i" and tier == "quick" and func.startswith("nan") and func not in ("nanfirst", "nanlast", "nansum"):
                        continue
                    for method, reindex in PLANS:
                        yield {"mode": "builtin", "func": func, "dt": dtclass, "n": n, "split": sp,
                               "method": method, "reindex": reindex, "tier_alpha": tier}  # fmt: skip


def exhaustive_note(tier):
    return (
        f"all ordered value sequences of length 1..{4 if tier == 'quick' else 5} over the alphabet "
        f"({'6' if tier == 'quick' else '8'} float symbols incl. NaN, +-inf; ints; bools) x all ordered 3-way splits x 3 plans "
        "x every block-stage aggregation"
    )


# ----------------------------------------------------------------------------- user programs

SLOTS = {
    # chunk name -> (combine, intermediate fill, numpy reduction of the whole group)
    "sum": ("sum", 0, lambda m: np.sum(m, axis=1)),
    "nansum": ("sum", 0, lambda m: np.nansum(m, axis=1)),
    "prod": ("prod", 1, lambda m: np.prod(m, axis=1)),
    "max": ("max", -np.inf, lambda m: np.max(m, axis=1)),
    "min": ("min", np.inf, lambda m: np.min(m, axis=1)),
    "nanmax": ("nanmax", -np.inf, lambda m: np.nanmax(m, axis=1)),
    "nanmin": ("nanmin", np.inf, lambda m: np.nanmin(m, axis=1)),
    "nanlen": ("sum", 0, lambda m: (~np.isnan(m)).sum(axis=1)),
}
FINALIZERS = {"first": None, "div": operator.truediv, "sub": operator.sub, "mul": operator.mul}


def _nanext(m, f, ident):
    out = np.full(m.shape[0], ident, dtype=float)
    for j in range(m.shape[1]):
        out = f(out, m[:, j])
    return out


def _first(a, *rest):
    return a


@st.composite
def programs(draw, tier="quick"):
    nslots = draw(st.sampled_from([1, 2, 2]))
    slots = draw(st.lists(st.sampled_from(sorted(SLOTS)), min_size=nslots, max_size=nslots))
    fin = "first" if nslots == 1 else draw(st.sampled_from(["div", "sub", "mul", "first"]))
    n = draw(st.integers(1, 4))
    sp = draw(st.sampled_from(list(splits(n))))
    method, reindex = draw(st.sampled_from(PLANS))
    return {"mode": "program", "slots": slots, "finalize": fin, "n": n, "split": list(sp), "method": method,
            "reindex": reindex, "final_fill": draw(st.sampled_from([None, -1, 0]))}  # fmt: skip


def strategy(tier):
    return programs(tier)


# ----------------------------------------------------------------------------- execution


def layout(rows, split, dtclass):
    """full array (nrows, n+6), labels, chunks, global columns of A's members"""
    nrows, n = rows.shape
    dt = {"f": np.float64, "i": np.int64, "b": bool}[dtclass]
    cols, labels, chunks, acols = [], [], [], []
    j = 0
    pos = 0
    for s in split:
        for _ in range(s):
            cols.append(rows[:, j])
            labels.append(0.0)
            acols.append(pos)
            j += 1
            pos += 1
        cols.append(np.full(nrows, 1, dtype=dt))  # second group: present in every block
        labels.append(1.0)
        cols.append(np.full(nrows, 1 if dtclass == "b" else 7, dtype=dt))  # missing label: must be ignored
        labels.append(np.nan)
        pos += 2
        chunks.append(s + 2)
    arr = np.stack(cols, axis=1).astype(dt)
    return arr, np.array(labels), chunks, np.array(acols)


def np_reference(func, M, acols, ddof=0):
    """vectorised NumPy reduction of every row of M (members of the group in order) -> (values, specified mask)"""
    nrows, n = M.shape
    spec = np.ones(nrows, dtype=bool)
    isn = np.isnan(M) if M.dtype.kind == "f" else np.zeros(M.shape, bool)
    with warnings.catch_warnings(), np.errstate(all="ignore"):
        warnings.simplefilter("ignore")
        if func == "count":
            return (~isn).sum(axis=1), spec
        if func in ("sum", "prod", "mean", "max", "min", "nansum", "nanprod", "nanmean", "any", "all"):
            return getattr(np, func)(M, axis=1), spec
        if func in ("nanmax", "nanmin"):
            return getattr(np, func)(M, axis=1), spec
        if func in ("var", "std", "nanvar", "nanstd"):
            return getattr(np, func)(M.astype(np.float64), axis=1, ddof=ddof), spec
        if func in ("argmax", "argmin"):
            spec = ~isn.any(axis=1)
            idx = getattr(np, func)(np.where(isn, 0, M), axis=1)
            return acols[idx], spec
        if func in ("nanargmax", "nanargmin"):
            spec = ~isn.all(axis=1)
            fill = -np.inf if func == "nanargmax" else np.inf
            # first occurrence of the nan-skipping extreme
            filled = np.where(isn, fill, M) if M.dtype.kind == "f" else M
            idx = (np.argmax if func == "nanargmax" else np.argmin)(filled, axis=1)
            # a genuine -inf/+inf member tied with the substitute: first non-NaN occurrence of the extreme
            ext = np.take_along_axis(filled, idx[:, None], axis=1)
            first = np.argmax((filled == ext) & ~isn, axis=1)
            return acols[first], spec
        if func in ("nanfirst", "nanlast"):
            valid = ~isn
            if func == "nanfirst":
                idx = np.argmax(valid, axis=1)
            else:
                idx = n - 1 - np.argmax(valid[:, ::-1], axis=1)
            vals = np.take_along_axis(M, idx[:, None], axis=1)[:, 0]
            if M.dtype.kind == "f":
                vals = np.where(valid.any(axis=1), vals, np.nan)
            return vals, spec
    raise KeyError(func)


def flox_call(arr, labels, chunks, func, method, reindex, one_block=False, **kw):
    import dask
    import dask.array as da
    from flox.core import groupby_reduce

    def go():
        if method == "eager":
            result, groups = groupby_reduce(arr, labels, func=func, **kw)
            return np.asarray(result), np.asarray(groups)
        ch = ((arr.shape[0],), (arr.shape[1],) if one_block else tuple(chunks))
        d = da.from_array(arr, chunks=ch)
        with dask.config.set(split_every=2, scheduler="sync"):
            result, groups = groupby_reduce(d, labels, func=func, method=method, reindex=reindex, **kw)
            return np.asarray(result.compute()), np.asarray(groups)

    return run(go)


def execute(case) -> Outcome:
    out = Outcome()
    n, split = case["n"], case["split"]
    out.nontrivial = sum(1 for s in split if s > 0) >= 2 or any(s == 0 for s in split)
    if case["mode"] == "builtin":
        return exec_builtin(case, out)
    return exec_program(case, out)


def compare(out, got_res, want, spec, func, dtype, label, sig):
    result, groups = got_res.value
    if list(np.asarray(groups).tolist()) != [0.0, 1.0]:
        out.add(("groups",) + sig, f"[{label}] groups {groups!r}")
        return False
    if result.shape != (want.shape[0], 2):
        out.add(("shape",) + sig, f"[{label}] shape {result.shape}")
        return False
    rtol, atol = tol_for(func, dtype)
    ok = close(result[:, 0], want, rtol, atol) | ~spec
    if not ok.all():
        i = int(np.argmin(ok))
        out.add(("value",) + sig, f"[{label}] row {i}: got {result[i, 0]!r}, reference {want[i]!r}")
        return False
    return True


def exec_builtin(case, out):
    func, dtclass, n, split = case["func"], case["dt"], case["n"], case["split"]
    alpha = alphabet(dtclass, case.get("tier_alpha", "quick"))
    rows = np.array(list(itertools.product(alpha, repeat=n)), dtype={"f": float, "i": np.int64, "b": bool}[dtclass])
    arr, labels, chunks, acols = layout(rows, split, dtclass)
    out.label(f"func={func}", f"dt={dtclass}", f"n={n}", f"plan={case['method']}/{case['reindex']}")
    out.labels.extend(["rows"] * 0)
    want, spec = np_reference(func, rows, acols)
    kw = {}
    sig = (func, f"dt={dtclass}")
    # the second group (one member 1 per block) is checked through its own trivial reference below
    merged = flox_call(arr, labels, chunks, func, case["method"], case["reindex"], **kw)
    whole = flox_call(arr, labels, chunks, func, case["method"], case["reindex"], one_block=True, **kw)
    eager = flox_call(arr, labels, chunks, func, "eager", None, **kw)
    for name, r in (("merged-3-blocks", merged), ("one-block", whole), ("eager", eager)):
        if r.kind == "refusal":
            out.label(f"refusal:{name}")
            continue
        if r.kind == "error":
            et, fr = r.errsig()
            out.add(("exception", et, fr), f"[{name}] {r.describe()} func={func} plan={case['method']}/{case['reindex']}")
            continue
        lab = f"{name} func={func} split={split} plan={case['method']}/{case['reindex']}"
        if func in ("nanargmax", "nanargmin") and dtclass == "f":
            # rows whose NaN-skipping extreme is the very infinity flox substitutes for NaN, and that contain a NaN
            sub = -np.inf if func == "nanargmax" else np.inf
            with warnings.catch_warnings():
                warnings.simplefilter("ignore")
                ext = (np.nanmax if func == "nanargmax" else np.nanmin)(rows, axis=1)
            tie = (ext == sub) & np.isnan(rows).any(axis=1)
            compare(out, r, want, spec & ~tie, func, arr.dtype, lab, sig + (name,))
            compare(out, r, want, spec & tie, func, arr.dtype, lab, sig + (name, "inf-extreme-with-nan"))
        else:
            compare(out, r, want, spec, func, arr.dtype, lab, sig + (name,))
    out.labels.append(f"rows={rows.shape[0]}")
    return out


def build_program(case):
    from flox.aggregations import Aggregation

    slots = case["slots"]
    kw = dict(
        chunk=tuple(slots),
        combine=tuple(SLOTS[s][0] for s in slots),
        fill_value=tuple(SLOTS[s][1] for s in slots),
        finalize=FINALIZERS[case["finalize"]] if case["finalize"] != "first" else (_first if len(slots) > 1 else None),
        final_dtype=np.float64,
        dtypes=tuple(np.intp if s == "nanlen" else np.float64 for s in slots),
    )
    if case.get("final_fill") is not None:
        kw["final_fill_value"] = case["final_fill"]
    return Aggregation("userprog", **kw)


def exec_program(case, out):
    n, split = case["n"], case["split"]
    alpha = [-2.0, 0.0, 1.0, np.nan]
    rows = np.array(list(itertools.product(alpha, repeat=n)), dtype=float)
    arr, labels, chunks, acols = layout(rows, split, "f")
    out.label("mode=program", f"slots={'+'.join(case['slots'])}", f"finalize={case['finalize']}", f"plan={case['method']}/{case['reindex']}")
    parts = [SLOTS[s][2](rows).astype(float) for s in case["slots"]]
    with warnings.catch_warnings(), np.errstate(all="ignore"):
        warnings.simplefilter("ignore")
        if case["finalize"] == "first":
            want = parts[0]
        else:
            want = FINALIZERS[case["finalize"]](parts[0], parts[1])
    spec = np.ones(rows.shape[0], bool)
    if any(sl in ("nanmax", "nanmin") for sl in case["slots"]):
        # NumPy's nanmax/nanmin are undefined (warn, NaN) on all-NaN input and +-inf is then not a neutral
        # fill: such rows are outside the domain of a well-formed user program
        spec &= ~np.isnan(rows).all(axis=1)
    sig = ("program", "+".join(case["slots"]), case["finalize"])
    for name, one in (("merged-3-blocks", False), ("one-block", True)):
        agg = build_program(case)
        r = flox_call(arr, labels, chunks, agg, case["method"], case["reindex"], one_block=one)
        if r.kind == "refusal":
            out.label(f"refusal:{name}")
            continue
        if r.kind == "error":
            et, fr = r.errsig()
            out.add(("exception", et, fr), f"[{name}] {r.describe()} program={case['slots']}/{case['finalize']}")
            continue
        compare(out, r, want, spec, "sum", np.float64, f"{name} program={case['slots']}/{case['finalize']} split={split} "
                f"plan={case['method']}/{case['reindex']}", sig + (name,))  # fmt: skip
    return out
