"""C11 — result dtype, shape and chunk metadata are plan-independent and truthful."""

from __future__ import annotations

import numpy as np
from hypothesis import strategies as st

from ..base import Outcome, run
from ..codec import unnum

ID = "C11"
RULE = (
    "Enumeration of the cell table: input dtype in {bool, int8/16/32/64, uint8/16/32/64, float32/64} x every reduction "
    "(incl. median / quantile with scalar and vector q) x dtype= in {None, float32, float64, int64} x fill_value in {None, "
    "7, NaN}, plus datetime64[ns] / timedelta64[s] x {min, max, nanmin, nanmax, first, last, nanfirst, nanlast, count, "
    "mean}; every cell is run on EVERY plan: eager x engines {numpy, flox, numbagg, None}; chunked x {map-reduce "
    "reindex=True/False, cohorts, blockwise, None} x 2 chunkings. Hypothesis part: random cells with generated data/labels. "
    "Oracle: (1) dtype and shape identical across all plans of a cell; (2) dtype equals the table derived from NumPy at run "
    "time (np.sum/np.mean/np.min of a zero array of that dtype, np.intp for count/arg*, bool for any/all, then "
    "np.result_type(., fill) when a fill is given, dtype= overriding) where NumPy has a convention; (3) truthfulness: "
    "dtype, shape, chunks, type(_meta), _meta.dtype/ndim announced before compute equal those of the computed array and "
    "of every individually computed block. Non-trivial / distinct = a (cell, plan) pair not seen before (counted by the "
    "case digest; every enumerated cell is distinct and runs >= 9 plans)."
)
BUDGET = {"quick": 60, "thorough": 600}
ASSUMPTIONS = [
    "cells where NumPy has no convention (quantile/median dtype for float32, datetime mean) are held to plan-independence and truthfulness only",
    "fill values are only generated together with an absent requested label",
]

DTYPES = ["|b1", "|i1", "<i2", "<i4", "<i8", "|u1", "<u2", "<u4", "<u8", "<f4", "<f8"]
FUNCS = [
    "sum", "nansum", "prod", "nanprod", "mean", "nanmean", "var", "nanvar", "std", "nanstd", "max", "nanmax", "min", "nanmin",
    "argmax", "nanargmax", "argmin", "nanargmin", "first", "nanfirst", "last", "nanlast", "count", "any", "all",
    "median", "nanmedian", "quantile", "nanquantile", "quantile-vec",
]  # fmt: skip
REQ_DTYPES = [None, "<f4", "<f8", "<i8"]
FILLS = [None, 7, "nan"]
DT_FUNCS = ["min", "max", "nanmin", "nanmax", "first", "last", "nanfirst", "nanlast", "count", "mean"]
ENGINES = ["numpy", "flox", "numbagg", None]


def enumerate_cases(tier):
    for dt in DTYPES:
        for func in FUNCS:
            for req in REQ_DTYPES:
                for fill in FILLS:
                    yield {"dt": dt, "func": func, "dtype": req, "fill": fill, "data": None}
                    if fill is None and req in (None, "<f4"):
                        # same cell on a layout where one block's labels are all missing (legal: they belong to no group)
                        yield {"dt": dt, "func": func, "dtype": req, "fill": fill, "data": "missing-block"}
    for dt in ("<M8[ns]", "<m8[s]"):
        for func in DT_FUNCS:
            yield {"dt": dt, "func": func, "dtype": None, "fill": None, "data": None}


def exhaustive_note(tier):
    return "the full cell table: 11 input dtypes x 30 reductions x 4 dtype= x 3 fills + 2 datetime dtypes x 10 reductions, each on >= 9 plans"


@st.composite
def cases(draw, tier="quick"):
    dt = draw(st.sampled_from(DTYPES))
    func = draw(st.sampled_from(FUNCS))
    fill = draw(st.sampled_from(FILLS))
    n = draw(st.integers(2, 10))
    labels = draw(st.lists(st.integers(0, 2), min_size=n, max_size=n))
    if draw(st.booleans()):
        # a run of missing labels (may cover a whole block)
        a = draw(st.integers(0, n - 1))
        b = min(n, a + draw(st.integers(1, n)))
        labels = [None if a <= i < b and i != 0 else x for i, x in enumerate(labels)]
    vals = draw(st.lists(st.integers(0, 3), min_size=n, max_size=n))
    data = {"v": vals, "by": labels}
    if draw(st.booleans()):
        # a leading batch dimension, chunked on its own (the announced chunk grid then has two axes to be truthful about)
        k = draw(st.integers(1, 4))
        data["batch"] = k
        data["bchunks"] = draw(compositions(k))
    if draw(st.integers(0, 3)) == 0 and None not in labels:
        data["bydask"] = True  # chunked labels (+ expected_groups): the labels' values are unknown while the metadata is announced
    if draw(st.integers(0, 3)) == 0 and None not in labels:
        data["by2"] = draw(st.lists(st.integers(0, 1), min_size=n, max_size=n))  # second grouper: two trailing group axes
    data["nsplit"] = draw(compositions(n))
    return {"dt": dt, "func": func, "dtype": draw(st.sampled_from(REQ_DTYPES)), "fill": fill, "data": data}


@st.composite
def compositions(draw, n):
    out, left = [], n
    while left > 0:
        c = draw(st.integers(1, left))
        out.append(c)
        left -= c
    return out


def strategy(tier):
    return cases(tier)


def numpy_table(dt, func, req, fill):
    """expected dtype per NumPy conventions, or None when NumPy has no convention for the cell"""
    dt = np.dtype(dt)
    z = np.zeros(2, dtype=dt)
    f = func[3:] if func.startswith("nan") else func
    if dt.kind in "Mm":
        if f in ("min", "max", "first", "last"):
            return dt
        if f == "count":
            return np.dtype(np.intp)
        return None
    if f in ("median", "quantile", "quantile-vec"):
        return None
    if req is not None:
        base = np.dtype(req)
    elif f in ("sum", "prod"):
        base = getattr(np, f)(z).dtype
    elif f in ("mean", "var", "std"):
        base = getattr(np, f)(z).dtype
    elif f in ("max", "min", "first", "last"):
        base = dt
    elif f in ("count", "argmax", "argmin"):
        base = np.dtype(np.intp)
    elif f in ("any", "all"):
        base = np.dtype(bool)
    else:
        return None
    if fill is not None:
        base = np.result_type(base, unnum(fill))
    return np.dtype(base)


def build(case):
    dt = np.dtype(case["dt"])
    if case.get("data") == "missing-block":
        v = np.array([1, 0, 2, 3, 1, 2, 3, 1, 1, 2, 0, 1])
        by = np.array([0, 0, 1, 1, np.nan, np.nan, np.nan, np.nan, 0, 1, 1, 0])
    elif case.get("data"):
        v = np.array(case["data"]["v"])
        by = np.array([np.nan if b is None else b for b in case["data"]["by"]], dtype=float) if None in case["data"]["by"] else np.array(case["data"]["by"])
    else:
        v = np.array([1, 0, 2, 3, 1, 2, 0, 1])
        by = np.array([0, 0, 1, 1, 0, 1, 1, 0])
    if dt.kind == "b":
        arr = v.astype(bool)
    elif dt.kind in "Mm":
        arr = v.astype(np.int64).view(dt) if dt.itemsize == 8 else v.astype(dt)
        arr = v.astype(np.int64).astype(dt)
    else:
        arr = v.astype(dt)
    d = case.get("data")
    if isinstance(d, dict) and d.get("batch"):
        arr = np.stack([np.roll(arr, i) for i in range(d["batch"])])
    return arr, by


def plans(n, labels, nsplit=None):
    half = n // 2 or 1
    out = [("eager", e, None) for e in ENGINES]
    chunkings = [[n], [half, n - half] if n > 1 else [n]]
    if n == 12:
        chunkings = [[n], [4, 4, 4]]
    if nsplit and list(nsplit) not in chunkings:
        chunkings.append(list(nsplit))
    for chunks in chunkings:
        for method, reindex in (("map-reduce", True), ("map-reduce", False), ("cohorts", None), ("blockwise", None), (None, None)):
            out.append(("chunked", (method, reindex), chunks))
    return out


def execute(case) -> Outcome:
    import dask
    import dask.array as da
    from flox.core import groupby_reduce

    out = Outcome()
    out.nontrivial = True
    arr, by = build(case)
    func = case["func"]
    kw = {"func": func if func != "quantile-vec" else "quantile"}
    if func in ("quantile", "nanquantile"):
        kw["finalize_kwargs"] = {"q": 0.5}
    elif func == "quantile-vec":
        kw["finalize_kwargs"] = {"q": [0.25, 0.75]}
    if case.get("dtype") is not None:
        kw["dtype"] = np.dtype(case["dtype"])
    present = sorted(set(x for x in by.tolist() if x == x))
    d = case["data"] if isinstance(case.get("data"), dict) else {}
    bys = [by]
    if d.get("by2"):
        by2 = np.array(d["by2"])
        bys.append(by2)
        out.label("two-groupers")
    if case.get("fill") is not None:
        kw["fill_value"] = unnum(case["fill"])
        kw["expected_groups"] = np.array(present + [max(present) + 5])
    elif d.get("bydask"):
        kw["expected_groups"] = np.array(present)
    if len(bys) == 2:
        eg2 = np.array(sorted(set(d["by2"])))
        kw["expected_groups"] = (kw["expected_groups"], eg2) if "expected_groups" in kw else ((np.array(present), eg2) if d.get("bydask") else None)
        if kw["expected_groups"] is None:
            del kw["expected_groups"]
    if d.get("batch"):
        out.label("batch-dim")
    if d.get("bydask"):
        out.label("dask-labels")
    want = numpy_table(case["dt"], func, case.get("dtype"), case.get("fill"))
    out.label(f"func={func}", f"dt={case['dt']}", f"req={case.get('dtype')}", f"fill={case.get('fill')}")
    seen = {}
    cell = f"dt={case['dt']},func={func},dtype={case.get('dtype')},fill={case.get('fill')}"
    boolfill = np.dtype(case["dt"]).kind == "b" and case.get("fill") is not None and func in (
        "max", "min", "nanmax", "nanmin", "first", "last", "nanfirst", "nanlast")  # fmt: skip
    for kind, spec, chunks in plans(arr.shape[-1], by, d.get("nsplit")):
        if kind == "eager":
            r = run(lambda: groupby_reduce(arr, *bys, engine=spec, **kw)[0])
            label = f"eager/engine={spec}"
        else:
            method, reindex = spec
            extra = {}
            if method is not None:
                extra["method"] = method
            if reindex is not None:
                extra["reindex"] = reindex
            achunks = (tuple(chunks),) if arr.ndim == 1 else (tuple(d["bchunks"]), tuple(chunks))
            cbys = [da.from_array(b, chunks=(tuple(chunks),)) for b in bys] if d.get("bydask") else bys
            r = run(lambda: groupby_reduce(da.from_array(arr, chunks=achunks), *cbys, **kw, **extra)[0])
            label = f"chunked/method={method}/reindex={reindex}/nblocks={len(chunks)}"
        if r.kind == "refusal":
            out.label("refusal")
            continue
        if r.kind == "error":
            out.label(f"error:{type(r.exc).__name__}")  # C19's business
            continue
        res = r.value
        announced = (np.dtype(res.dtype), tuple(res.shape))
        if kind == "chunked" and dask.is_dask_collection(res):
            meta = res._meta
            ann_chunks = res.chunks
            c = run(lambda: np.asarray(res.compute(scheduler="sync")))
            if c.kind != "value":
                out.label(f"compute-{c.kind}")
                continue
            val = c.value
            if np.dtype(val.dtype) != announced[0] or tuple(val.shape) != announced[1]:
                out.add(("untruthful", "array", "dtype" if np.dtype(val.dtype) != announced[0] else "shape"),
                        f"[{cell}] {label}: announced dtype/shape {announced} but computed {val.dtype}/{val.shape}")  # fmt: skip
            if np.dtype(meta.dtype) != announced[0] or meta.ndim != len(announced[1]) or not isinstance(val, type(meta)):
                out.add(("untruthful", "meta"), f"[{cell}] {label}: _meta {type(meta).__name__}/{meta.dtype}/ndim={meta.ndim} vs computed "
                        f"{type(val).__name__}/{val.dtype}/ndim={val.ndim}")  # fmt: skip
            if not any(np.isnan(x) for ch in ann_chunks for x in ch):
                import itertools

                for bi in itertools.product(*[range(len(ch)) for ch in ann_chunks]):
                    b = run(lambda: np.asarray(res.blocks[bi].compute(scheduler="sync")))
                    if b.kind != "value":
                        out.add(("untruthful", "block-compute-fails"), f"[{cell}] {label}: block {bi} cannot be computed: {b.describe()}")
                        break
                    wantshape = tuple(ann_chunks[ax][i] for ax, i in enumerate(bi))
                    if tuple(b.value.shape) != wantshape or np.dtype(b.value.dtype) != announced[0]:
                        out.add(("untruthful", "block"), f"[{cell}] {label}: block {bi} is {b.value.dtype}{b.value.shape}, announced "
                                f"{announced[0]}{wantshape}")  # fmt: skip
                        break
            final = (np.dtype(val.dtype), tuple(val.shape))
        else:
            val = np.asarray(res)
            final = (np.dtype(val.dtype), tuple(val.shape))
        seen[label] = final
        out.label("value")
    if seen:
        first_label, first = next(iter(seen.items()))
        for label, f in seen.items():
            if f != first:
                what = "dtype" if f[0] != first[0] else "shape"
                out.add(("plan-dependent", what, func_family(func)), f"[{cell}] {what} depends on the plan: {first_label} -> {first}, {label} -> {f}")
                break
        if want is not None:
            for label, f in seen.items():
                if f[0] != want:
                    out.add(("numpy-table", func_family(func), "bool-input-with-fill" if boolfill else f"in={np.dtype(case['dt']).kind}"),
                            f"[{cell}] {label}: result dtype {f[0]}, NumPy convention {want}")  # fmt: skip
                    break
    return out


def func_family(func):
    f = func[3:] if func.startswith("nan") else func
    if f in ("sum", "prod"):
        return "sum"
    if f in ("mean", "var", "std"):
        return "mean"
    if f in ("max", "min", "first", "last"):
        return "minmax"
    if "arg" in f or f == "count":
        return "index"
    return f
