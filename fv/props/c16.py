"""C16 — group order follows the sort contract; the label->value mapping never changes."""

from __future__ import annotations

import numpy as np
from hypothesis import strategies as st

from .. import gen
from ..base import Outcome
from ..cmp import close, tol_for
from ..codec import dec, unnum
from ..floxcall import chunked_reduce, eager_reduce, reduce_kwargs
from ..ref import UNSPEC, ref_1d
from .c02 import runs_are_sequential

ID = "C16"
RULE = (
    "Hypothesis: labels int / float with NaN / str with 3-8 distinct values in unsorted first-appearance order; sort in "
    "{True, False}; expected_groups in {absent, sorted, unsorted permutation, superset (with fill)}; eager and every "
    "strategy (None, map-reduce, cohorts, blockwise where valid) x reindex x chunkings giving several cohorts / blocks; data "
    "= provenance weights 3**i with func=sum (the value identifies the members) or a random reduction. Oracle: sort=True => "
    "returned labels strictly ascending without duplicates; sort=False => labels == expected_groups order if given, == order "
    "of first appearance for eager input (chunked without expected_groups: mapping only); always {label: value} == the "
    "independent NumPy reference mapping, and every present/requested label appears exactly once. Non-trivial = >=3 labels "
    "whose sorted order differs from the first-appearance / requested order."
)
BUDGET = {"quick": 600, "thorough": 4000}
ASSUMPTIONS = ["absent requested labels always come with a fill_value"]


@st.composite
def cases(draw, tier="quick"):
    n = draw(st.integers(3, 24)) if draw(st.integers(0, 4)) else draw(st.integers(25, 44))
    lab = gen.draw_labels(draw, n, kinds=["int", "negint", "float", "str", "bigint", "u1", "u8", "i2"], max_groups=8,
                          styles=["random", "random", "periodic", "blocks", "runs", "sorted"])  # fmt: skip
    prov = draw(st.booleans()) and n <= 30
    if prov:
        func, dt = "sum", "<i8"
        vals = [3**i for i in range(n)]
    else:
        func = draw(st.sampled_from(["nanmax", "min", "count", "mean", "nansum", "nanfirst", "argmax", "prod"]))
        dt = draw(st.sampled_from(["<f8", "<i8", "<f4"]))
        vals = gen.draw_values(draw, n, dt, func)
    case = {"arr": {"dt": dt, "sh": [n], "v": vals}, "by": lab["spec"], "func": func, "sort": draw(st.booleans())}
    present = []
    for v in lab["spec"]["v"]:
        if v != "nan" and v not in present:
            present.append(v)
    mode = draw(st.sampled_from(["absent", "absent", "sorted", "perm", "perm", "superset"]))
    extra = {"int": [20, -1], "negint": [100, -100], "bigint": [1, 2**41], "float": [99.5, -99.5], "str": ["y", "A"], "u1": [7, 100], "u8": [7, 100], "i2": [7, -100]}[lab["kind"]]
    if present and mode != "absent":
        if mode == "sorted":
            labels = sorted(present)
        elif mode == "perm":
            labels = list(draw(st.permutations(present)))
        else:
            labels = list(draw(st.permutations(present + extra[:1])))
            case["fill_value"] = 0 if func in ("argmax",) else draw(st.sampled_from(["nan", 0]))
        case["expected"] = {"labels": labels, "as": draw(st.sampled_from(["array", "index", "list"]))}
    case["engine"] = draw(st.sampled_from(["numpy", None, "flox", "numbagg"]))
    chunks = [gen.draw_chunks(draw, n, max_blocks=8 if n <= 24 else 20)]
    ok_blockwise = len(chunks[0]) == 1 or runs_are_sequential(lab["spec"]["v"])
    methods = [None, "map-reduce", "cohorts"] + (["blockwise"] if ok_blockwise else [])
    plans = []
    for m in draw(st.permutations(methods))[:3]:
        plans.append({"method": m, "reindex": draw(st.sampled_from([None, None, False, True])), "chunks": chunks,
                      "by_dask": False, "by_chunks": None})  # fmt: skip
    case["plans"] = plans
    return case


def strategy(tier):
    return cases(tier)


def key(x):
    if isinstance(x, (str, np.str_)):
        return str(x)
    return float(x)


def execute(case) -> Outcome:
    out = Outcome()
    arr = dec(case["arr"])
    by = dec(case["by"])
    func = case["func"]
    sort = case["sort"]
    kw = reduce_kwargs(case)
    engine = case.get("engine")
    requested = [unnum(x) for x in case["expected"]["labels"]] if case.get("expected") else None
    keys, res, nmem, nvalid = ref_1d(arr, by, func, requested=requested, sort=True)
    has_fill = case.get("fill_value") is not None
    # present-but-all-NaN group while a fill is supplied: unspecified (flox masks it by design)
    refmap = {key(k): ((UNSPEC if (has_fill and v == 0) else r), m) for k, r, m, v in zip(keys, res, nmem, nvalid)}
    first_appearance = []
    for x in by.tolist():
        if not (isinstance(x, float) and np.isnan(x)) and key(x) not in first_appearance:
            first_appearance.append(key(x))
    natural = [key(k) for k in keys]
    want_order = natural if sort else ([key(x) for x in requested] if requested is not None else first_appearance)
    out.nontrivial = len(keys) >= 3 and (([key(x) for x in requested] if requested is not None else first_appearance) != natural)
    rtol, atol = tol_for(func, arr.dtype)
    out.label(f"func={func}", f"sort={sort}", f"expected={'given' if requested is not None else 'absent'}", f"labels={case['by']['dt']}")

    def check(res_, where, eager):
        result, (groups,) = res_.value
        got = [key(g) for g in np.asarray(groups).tolist()]
        wkind = where.split(":")[0]
        method = where.split("method=")[1].split(",")[0] if "method=" in where else "-"
        if len(set(got)) != len(got):
            out.add(("duplicate-labels", wkind, f"sort={sort}", f"method={method}"), f"[{where}] returned labels contain duplicates: {got}")
            return
        if set(got) != set(natural):
            out.add(("labels-lost-or-invented", wkind, f"sort={sort}", f"method={method}"), f"[{where}] returned labels {got} != present/requested labels {natural}")
            return
        if sort:
            if got != natural:
                out.add(("not-ascending", wkind, f"method={method}"), f"[{where}] sort=True but labels are {got}")
                return
        else:
            if requested is not None or eager:
                if got != want_order:
                    out.add(("order-contract", wkind, "expected-given" if requested is not None else "first-appearance", f"method={method}"),
                            f"[{where}] sort=False: labels {got}, contract says {want_order}")  # fmt: skip
                    return
        if result.shape != (len(got),):
            out.add(("shape", wkind), f"[{where}] shape {result.shape}")
            return
        for j, g in enumerate(got):
            want, nm = refmap[g]
            if want is UNSPEC or nm == 0:
                continue
            if not bool(np.all(close(np.asarray(result[j]), np.asarray(want), rtol, atol))):
                out.add(("mapping", wkind, f"sort={sort}", f"method={method}"),
                        f"[{where}] func={func} sort={sort}: label {g!r} is paired with {result[j]!r}, reference {want!r}; labels={got} "
                        f"values={np.asarray(result).tolist()}")  # fmt: skip
                return

    e = eager_reduce(arr, [by], kw, engine=engine)
    if e.kind == "error":
        et, fr = e.errsig()
        out.add(("exception", et, fr), f"eager {e.describe()} func={func}")
    elif e.ok:
        check(e, "eager", True)
    else:
        out.label("eager-refusal")
    for plan in case["plans"]:
        pl = f"chunked:method={plan['method']},reindex={plan['reindex']}"
        c = chunked_reduce(arr, [by], kw, plan, engine=engine)
        if c.kind == "refusal":
            out.label(f"refusal:{plan['method']}")
            continue
        if c.kind == "error":
            et, fr = c.errsig()
            out.add(("exception", et, fr), f"{c.describe()} [{pl}] func={func} sort={sort}")
            continue
        out.label(f"value:{plan['method']}")
        check(c, pl, False)
    return out
