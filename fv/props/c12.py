"""C12 — graph construction is lazy; labels found at compute time give the same mapping."""

from __future__ import annotations

import numpy as np
from hypothesis import strategies as st

from .. import gen
from ..base import Outcome, run
from ..cmp import close, tol_for
from ..codec import dec
from ..floxcall import eager_reduce, reduce_kwargs, to_dask
from ..sched import OwnedScheduler, SchedulerInvoked
from . import c02, c07, c10

ID = "C12"
RULE = (
    "Hypothesis over the configuration product: reductions (all) / scans x method {None, map-reduce, cohorts, blockwise} x "
    "engine x reindex {None, True, False} x labels numpy/dask (own chunking) x expected_groups given/absent, plus "
    "multi-grouper / binned calls (the C07 generator), xarray_reduce on chunked DataArrays / Datasets (numpy coordinate grouper, or dask grouper + expected_groups). "
    "Oracle: the API call is made with POISONED inputs (every block of the value array and of dask label arrays is a task "
    "that raises ChunkEvaluated) while a counting scheduler with quota 0 is installed through dask.config: any chunk "
    "evaluation or scheduler invocation during the call is a violation; the returned object must be a dask array (or an "
    "xarray object wrapping one); clean refusals are fine. With dask labels and no expected_groups the twin call on normal "
    "arrays is computed and {label: value} must equal the eager mapping (order-free). Non-trivial = the call reached graph "
    "construction with a dask input (returned a lazy result)."
)
BUDGET = {"quick": 260, "thorough": 2000}
ASSUMPTIONS = ["non-object label dtypes only (property text)"]


class ChunkEvaluated(BaseException):
    """raised by poisoned blocks; deliberately not an Exception subclass so nothing swallows it"""


def _boom(block, *a, **k):
    raise ChunkEvaluated("a chunk of an input array was evaluated during graph construction")


def poison(arr, chunks):
    import dask.array as da

    chunks = tuple(tuple(c) for c in chunks)
    tmpl = da.zeros(arr.shape, chunks=chunks, dtype=arr.dtype)
    return da.map_blocks(_boom, tmpl, dtype=arr.dtype, meta=np.array((), dtype=arr.dtype))


@st.composite
def cases(draw, tier="quick"):
    kind = draw(st.sampled_from(["reduce", "reduce", "reduce", "scan", "xarray", "multi"]))
    if kind == "multi":
        inner = draw(c07.cases(tier))
        return {"kind": "multi", "inner": inner}
    if kind == "reduce":
        inner = draw(c02.reduce_cases(tier, nplans=1, max_n=14))
        # degenerate but legal: no requested label occurs in the data
        if draw(st.integers(0, 7)) == 0 and inner["by"]["dt"] != "U":
            inner["expected"] = {"labels": [1000, 1001], "as": "array"}
            inner["fill_value"] = 0
        # push towards dask labels / unknown groups
        if draw(st.booleans()):
            inner["plans"][0]["by_dask"] = True
            if draw(st.booleans()):
                inner.pop("expected", None)
                inner.pop("fill_value", None)
        return {"kind": kind, "inner": inner}
    if kind == "scan":
        inner = draw(c10.cases(tier))
        inner["by_dask"] = draw(st.integers(0, 3)) == 0
        return {"kind": kind, "inner": inner}
    # xarray
    func = draw(st.sampled_from(["sum", "mean", "max", "count", "nanmin", "var", "first", "any"]))
    dt = "|b1" if func == "any" else draw(st.sampled_from(["<f8", "<i8"]))
    nx = draw(st.integers(2, 8))
    ny = draw(st.sampled_from([0, 0, 2, 3]))
    shape = ([ny] if ny else []) + [nx]
    n = int(np.prod(shape))
    vals = gen.draw_values(draw, n, dt, func)
    lab = gen.draw_labels(draw, nx, kinds=["int", "float"], max_groups=3, missing=False)
    return {
        "kind": "xarray", "func": func, "arr": {"dt": dt, "sh": shape, "v": vals}, "by": lab["spec"],
        "chunks": [[ny]] * (1 if ny else 0) + [gen.draw_chunks(draw, nx, max_blocks=4)],
        "by_dask": draw(st.booleans()), "dataset": draw(st.booleans()),
        "method": draw(st.sampled_from([None, "map-reduce", "cohorts"])),
    }  # fmt: skip


def strategy(tier):
    return cases(tier)


def is_lazy(x) -> bool:
    import dask

    return dask.is_dask_collection(x)


def guarded(fn):
    """run fn with the counting scheduler installed; BaseExceptions from poison are caught here"""
    import dask

    counting = OwnedScheduler("min", max_calls=0)

    def go():
        with dask.config.set(scheduler=counting):
            try:
                return fn()
            except ChunkEvaluated as e:
                raise RuntimeError(f"ChunkEvaluated: {e}") from None

    r = run(go)
    return r, counting


def report_eval(out, r, counting, what):
    """classify the outcome of a guarded call; returns True if a lazy value came back"""
    if r.kind == "refusal":
        # a refusal raised *because* something was computed still counts as an evaluation
        if counting.calls:
            out.add(("scheduler-invoked", what), f"{what}: scheduler invoked {counting.calls}x before the refusal {r.describe()}")
        out.label("refusal")
        return False
    if r.kind == "error":
        if isinstance(r.exc, SchedulerInvoked) or "SchedulerInvoked" in repr(r.exc):
            out.add(("scheduler-invoked", what), f"{what}: a dask computation was triggered during the call ({r.exc})")
        elif "ChunkEvaluated" in str(r.exc):
            out.add(("chunk-evaluated", what), f"{what}: an input chunk was evaluated during the call")
        else:
            out.label(f"error:{type(r.exc).__name__}")  # C19's business
        return False
    if counting.calls:
        out.add(("scheduler-invoked", what), f"{what}: scheduler invoked {counting.calls}x during the call")
    return True


def execute(case) -> Outcome:
    out = Outcome()
    kind = case["kind"]
    out.label(f"kind={kind}")
    if kind == "reduce":
        return exec_reduce(case["inner"], out)
    if kind == "scan":
        return exec_scan(case["inner"], out)
    if kind == "multi":
        return exec_multi(case["inner"], out)
    return exec_xarray(case, out)


def exec_multi(inner, out):
    """several groupers / bins (C07 cases) with poisoned inputs"""
    from flox.core import groupby_reduce

    arr = dec(inner["arr"])
    bys = [dec(b) for b in inner["bys"]]
    expected, isbin = c07.grouper_objects(inner)
    plan = inner["plans"][0]
    nb = arr.ndim - bys[0].ndim
    kw = dict(func=inner["func"], expected_groups=expected, isbin=isbin, fill_value=fill_of(inner), engine=inner.get("engine"))
    if plan.get("method") is not None:
        kw["method"] = plan["method"]
    if plan.get("reindex") is not None:
        kw["reindex"] = plan["reindex"]
    kinds = "+".join(g["kind"] for g in inner["groupers"])
    out.label(f"func={inner['func']}", f"groupers={kinds}", f"bydask={plan['by_dask']}", f"method={plan.get('method')}")

    def call():
        parr = poison(arr, plan["chunks"])
        pbys = bys
        if plan.get("by_dask"):
            pbys = [poison(b, [c if b.shape[i] != 1 else [1] for i, c in enumerate(plan["chunks"][nb:])]) for b in bys]
        return groupby_reduce(parr, *pbys, **kw)

    r, counting = guarded(call)
    what = f"groupby_reduce({len(bys)} groupers: {kinds}, bydask={plan['by_dask']})"
    if report_eval(out, r, counting, what):
        if not is_lazy(r.value[0]):
            out.add(("not-lazy", "groupby_reduce-multi"), f"{what}: returned {type(r.value[0]).__name__}")
        else:
            out.nontrivial = True
            out.label("lazy")
    return out


def fill_of(inner):
    from ..codec import unnum

    return unnum(inner["fill_value"])


def exec_reduce(inner, out):
    from flox.core import groupby_reduce

    arr = dec(inner["arr"])
    by = dec(inner["by"])
    plan = inner["plans"][0]
    kw = reduce_kwargs(inner)
    if plan.get("method") is not None:
        kw["method"] = plan["method"]
    if plan.get("reindex") is not None:
        kw["reindex"] = plan["reindex"]
    engine = inner.get("engine")
    func = inner["func"]
    by_dask = bool(plan.get("by_dask"))
    bc = plan.get("by_chunks") or [plan["chunks"][arr.ndim - by.ndim + ax] for ax in range(by.ndim)]
    out.label(f"func={func}", f"method={plan.get('method')}", f"reindex={plan.get('reindex')}", f"bydask={by_dask}",
              f"expected={'expected' in inner}")  # fmt: skip

    def call_poisoned():
        parr = poison(arr, plan["chunks"])
        pby = poison(by, bc) if by_dask else by
        return groupby_reduce(parr, pby, engine=engine, **kw)

    r, counting = guarded(call_poisoned)
    what = f"groupby_reduce(method={plan.get('method')},bydask={by_dask})"
    if report_eval(out, r, counting, what):
        result = r.value[0]
        if not is_lazy(result):
            out.add(("not-lazy", "groupby_reduce"), f"{what} func={func}: returned {type(result).__name__}, not a dask array")
        else:
            out.nontrivial = True
            out.label("lazy")
    # unknown labels: mapping found at compute time == eager mapping
    if by_dask and "expected" not in inner:
        def twin():
            import dask

            d = to_dask(arr, plan["chunks"])
            dby = to_dask(by, bc)
            res, *groups = groupby_reduce(d, dby, engine=engine, **kw)
            with dask.config.set(scheduler="sync"):
                comp = dask.compute(res, *groups)
            return np.asarray(comp[0]), np.asarray(comp[1])

        t = run(twin)
        e = eager_reduce(arr, [by], reduce_kwargs(inner), engine=engine)
        if t.ok and e.ok:
            out.label("unknown-labels-compared")
            tres, tg = t.value
            eres, (eg,) = e.value
            rtol, atol = tol_for(func, arr.dtype)
            mask = c02.nan_group_mask(arr, by, eg, func)
            key = lambda g: g if isinstance(g, str) else float(g)  # noqa: E731
            emap = {key(g): i for i, g in enumerate(eg.tolist())}
            ok = tres.shape[:-1] == eres.shape[:-1] and len(tg) == len(set(tg.tolist())) and set(map(key, tg.tolist())) == set(emap)
            if ok:
                for j, g in enumerate(tg.tolist()):
                    i = emap[key(g)]
                    good = close(tres[..., j], eres[..., i], rtol, atol)
                    if mask is not None:
                        good = good | ~mask[..., i]
                    if not np.all(good):
                        ok = False
            if not ok:
                out.add(("unknown-labels-mapping", func), f"func={func}: labels found at compute time {tg.tolist()} -> {tres.tolist()} "
                        f"!= eager {eg.tolist()} -> {eres.tolist()}")  # fmt: skip
        elif t.kind == "error" and e.ok:
            out.label(f"twin-error:{type(t.exc).__name__}")
    return out


def exec_scan(inner, out):
    from flox.core import groupby_scan

    arr = dec(inner["arr"])
    by = dec(inner["by"])
    func = inner["func"]
    chunks = [list(c) for c in inner["chunks"]]
    by_dask = bool(inner.get("by_dask")) and by.dtype.kind != "U"
    out.label(f"func={func}", f"bydask={by_dask}")

    def call():
        parr = poison(arr, chunks)
        pby = poison(by, [chunks[-1]]) if by_dask else by
        return groupby_scan(parr, pby, func=func)

    r, counting = guarded(call)
    what = f"groupby_scan(bydask={by_dask})"
    if report_eval(out, r, counting, what):
        if not is_lazy(r.value):
            out.add(("not-lazy", "groupby_scan"), f"{what} func={func}: returned {type(r.value).__name__}")
        else:
            out.nontrivial = True
            out.label("lazy")
    return out


def exec_xarray(case, out):
    import xarray as xr
    from flox.xarray import xarray_reduce

    arr = dec(case["arr"])
    by = dec(case["by"])
    func = case["func"]
    dims = (["y"] if arr.ndim == 2 else []) + ["x"]
    by_dask = case["by_dask"]
    out.label(f"func={func}", f"bydask={by_dask}", f"dataset={case['dataset']}", f"method={case['method']}")
    expected = np.unique(by) if by_dask else None

    def call():
        parr = poison(arr, case["chunks"])
        da_ = xr.DataArray(parr, dims=dims, name="v")
        if by_dask:
            lab = xr.DataArray(poison(by, [case["chunks"][-1]]), dims=["x"], name="lab")
        else:
            lab = xr.DataArray(by, dims=["x"], name="lab")
        obj = xr.Dataset({"v": da_, "w": da_ * 1}) if case["dataset"] else da_
        kw = {"expected_groups": expected} if by_dask else {}
        return xarray_reduce(obj, lab, func=func, method=case["method"], **kw)

    r, counting = guarded(call)
    what = f"xarray_reduce(bydask={by_dask},dataset={case['dataset']})"
    if report_eval(out, r, counting, what):
        res = r.value
        vars_ = list(res.data_vars.values()) if isinstance(res, xr.Dataset) else [res]
        if not all(is_lazy(v.data) for v in vars_):
            out.add(("not-lazy", "xarray_reduce"), f"{what} func={func}: result does not wrap a dask array")
        else:
            out.nontrivial = True
            out.label("lazy")
    return out
