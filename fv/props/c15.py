"""C15 — xarray_reduce agrees with xarray's own groupby (values, dims, coords, names, attrs)."""

from __future__ import annotations

import numpy as np
from hypothesis import strategies as st

from .. import gen
from ..base import REFUSALS, Outcome, innermost_flox_frame
from ..cmp import close
from ..codec import dec

ID = "C15"
RULE = (
    "Hypothesis: DataArrays / Datasets with 1-4 dims from {x,y,z,t} in a drawn order (sizes 1-4), float/int/bool data with "
    "NaN, attrs on object, variables and grouper; grouper = 1-D coordinate, 2-D coordinate, external named DataArray, a 1-D coordinate binned by edges "
    "(isbin=True vs native groupby_bins), or two groupers; dim in {None, the grouper dim(s), grouper dim + another dim, a non-grouper dim only, ...}; func in {sum, prod, "
    "mean, max, min, count, first, last, var, std, median, any, all}; skipna in {None, True, False}; min_count for sum/prod; "
    "keep_attrs; Datasets mixing variables that have / lack the reduced dims; in-memory, chunked with in-memory grouper, or "
    "dask grouper + expected_groups. Oracle, layered with one signature per layer: native xarray groupby of the in-memory "
    "object under set_options(use_flox=False, use_numbagg=False, use_bottleneck=False): (a) same variables / dims / "
    "coordinate names, (b) values after transposing to a common order (rtol=atol=1e-12), (c) dimension order per variable, "
    "(d) coordinate values and index type, (e) names and attrs; per variable: a Dataset variable lacking every reduced dim "
    "must pass through unchanged (equal to the input broadcast over an added group dim) and is not compared with native; "
    "where native xarray refuses the configuration, values must equal groupby_reduce on the underlying arrays. "
    "Non-trivial = >=2 dims and (permuted order, 2-D grouper, two groupers, or a Dataset with a pass-through variable)."
)
BUDGET = {"quick": 240, "thorough": 2000}
WALL = {"quick": 500, "thorough": 3400}
ASSUMPTIONS = [
    "native xarray with flox disabled is the oracle where it supports the configuration",
    "native dask quantile is broken in this environment, so the native oracle always runs on the in-memory object",
]
DIMS = ["x", "y", "z", "t"]
FUNCS = ["sum", "prod", "mean", "max", "min", "count", "first", "last", "var", "std", "median", "any", "all"]


@st.composite
def cases(draw, tier="quick"):
    nd = draw(st.sampled_from([1, 2, 2, 3, 3, 4]))
    dims = list(draw(st.permutations(DIMS))[:nd])
    sizes = {d: draw(st.integers(1, 4)) for d in dims}
    func = draw(st.sampled_from(FUNCS))
    dt = "|b1" if func in ("any", "all") else draw(st.sampled_from(["<f8", "<f8", "<i8", "<f4"]))
    n = int(np.prod([sizes[d] for d in dims]))
    vals = gen.draw_values(draw, n, dt, func, nan_p=0.3)
    gkind = draw(st.sampled_from(["coord1d", "coord1d", "coord1d", "external1d", "coord2d", "two", "bins1d"])) if nd >= 2 else draw(st.sampled_from(["coord1d", "external1d", "bins1d"]))
    gdims = [dims[draw(st.integers(0, nd - 1))]] if gkind in ("coord1d", "external1d", "bins1d") else list(draw(st.permutations(dims))[:2])
    groupers = []
    ng = 2 if gkind == "two" else 1
    for gi in range(ng):
        gd = gdims if gkind != "two" else [gdims[gi]]
        gn = int(np.prod([sizes[d] for d in gd]))
        if gkind == "bins1d":
            edges = [0.0, 1.0, 2.5, 4.0][: draw(st.integers(2, 4))]
            pool = [0.0, 0.5, 1.0, 1.5, 2.5, 3.0, 4.0, 5.0, -1.0, "nan"]
            v = draw(st.lists(st.sampled_from(pool), min_size=gn, max_size=gn))
            groupers.append({"dims": gd, "spec": {"dt": "<f8", "sh": [gn], "v": v}, "name": f"lab{gi}", "attrs": draw(st.booleans()), "edges": edges})
            continue
        lab = gen.draw_labels(draw, gn, kinds=["int", "float", "str"], max_groups=3, missing=draw(st.booleans()))
        groupers.append({"dims": gd, "spec": {"dt": lab["spec"]["dt"], "sh": [sizes[d] for d in gd], "v": lab["spec"]["v"]},
                         "name": f"lab{gi}", "attrs": draw(st.booleans())})  # fmt: skip
    allg = []
    for g in groupers:
        for d in g["dims"]:
            if d not in allg:
                allg.append(d)
    others = [d for d in dims if d not in allg]
    dim_choice = draw(st.sampled_from(["none", "none", "gdims", "gdims+other", "other", "ellipsis", "subset"]))
    if dim_choice == "none":
        dim = None
    elif dim_choice == "gdims":
        dim = list(allg)
    elif dim_choice == "gdims+other" and others:
        dim = list(allg) + [others[0]]
    elif dim_choice == "other" and others:
        dim = [others[0]]
    elif dim_choice == "ellipsis" and ng == 1:
        dim = "..."
    elif dim_choice == "subset" and len(allg) > 1:
        dim = [allg[0]]
    else:
        dim = None
    if func in ("first", "last"):
        dim = None  # native first/last take no dim argument
    if gkind == "bins1d" and dim is not None and dim != "..." and not all(d in dim for d in allg):
        dim = None  # binning while reducing only over other dims: see known finding R36 (AssertionError)
    dataset = draw(st.booleans())
    case = {
        "dims": dims, "sizes": sizes, "arr": {"dt": dt, "sh": [sizes[d] for d in dims], "v": vals}, "func": func,
        "gkind": gkind, "groupers": groupers, "dim": dim, "dataset": dataset,
        "skipna": draw(st.sampled_from([None, None, True, False])) if func not in ("count", "any", "all") else None,
        "keep_attrs": draw(st.sampled_from([True, True, False])),
        "min_count": draw(st.sampled_from([None, None, 1, 2])) if func in ("sum", "prod") else None,
        "chunk": draw(st.sampled_from([None, None, "obj", "obj", "both"])),
        "chunksizes": {d: draw(st.integers(1, 3)) for d in dims},
        "extra_var_dims": list(draw(st.permutations(dims))[: draw(st.integers(0, nd))]) if dataset else None,
        "engine": draw(st.sampled_from([None, None, "numpy", "flox"])),
    }  # fmt: skip
    return case


def strategy(tier):
    return cases(tier)


def build(case):
    import xarray as xr

    dims = case["dims"]
    arr = dec(case["arr"])
    da = xr.DataArray(arr, dims=dims, name="v", attrs={"units": "m", "note": "obj"})
    for d in dims:
        if d in ("x", "t"):
            da = da.assign_coords({d: np.arange(case["sizes"][d]) * 10})
    gobjs = []
    for g in case["groupers"]:
        lab = xr.DataArray(dec(g["spec"]), dims=g["dims"], name=g["name"], attrs={"long_name": "labels"} if g["attrs"] else {})
        gobjs.append(lab)
    obj = da
    if case["dataset"]:
        ev = case["extra_var_dims"] or []
        shape = [case["sizes"][d] for d in ev]
        w = xr.DataArray(np.arange(int(np.prod(shape)) if shape else 1, dtype=float).reshape(shape) + 1.0, dims=ev, attrs={"units": "w"})
        obj = xr.Dataset({"v": da, "w": w}, attrs={"title": "ds"})
    by = []
    for lab in gobjs:
        if case["gkind"] in ("coord1d", "coord2d", "two", "bins1d"):
            obj = obj.assign_coords({lab.name: lab})
            by.append(lab.name)
        else:
            by.append(lab)
    return obj, by, gobjs


def reduced_dims(case):
    allg = []
    for g in case["groupers"]:
        for d in g["dims"]:
            if d not in allg:
                allg.append(d)
    dim = case["dim"]
    if dim is None:
        return allg
    if dim == "...":
        name = case["groupers"][0]["name"]
        return [d for d in case["dims"] if d != name]
    return list(dim)


def native(obj, by, case):
    import xarray as xr

    func = case["func"]
    kw = {}
    if case["dim"] is not None:
        kw["dim"] = ... if case["dim"] == "..." else case["dim"]
    if case["skipna"] is not None:
        kw["skipna"] = case["skipna"]
    if case["min_count"] is not None:
        kw["min_count"] = case["min_count"]
    if func not in ("first", "last"):
        kw["keep_attrs"] = case["keep_attrs"]
    with xr.set_options(use_flox=False, use_numbagg=False, use_bottleneck=False):
        if case["gkind"] == "bins1d":
            gb = obj.groupby_bins(by[0], bins=case["groupers"][0]["edges"])
        else:
            gb = obj.groupby(by[0])
        if func in ("first", "last"):
            kw.pop("dim", None)
            return getattr(gb, func)(**({"skipna": case["skipna"]} if case["skipna"] is not None else {}), keep_attrs=case["keep_attrs"])
        return getattr(gb, func)(**kw)


def flox_call(obj, by, gobjs, case):
    import xarray as xr
    from flox.xarray import xarray_reduce

    kw = {"func": case["func"], "keep_attrs": case["keep_attrs"]}
    if case["dim"] is not None:
        kw["dim"] = ... if case["dim"] == "..." else case["dim"]
    if case["skipna"] is not None:
        kw["skipna"] = case["skipna"]
    if case["min_count"] is not None:
        kw["min_count"] = case["min_count"]
    if case.get("engine"):
        kw["engine"] = case["engine"]
    if case["gkind"] == "bins1d":
        kw["expected_groups"] = np.array(case["groupers"][0]["edges"])
        kw["isbin"] = True
    o = obj
    byc = list(by)
    if case["chunk"]:
        o = obj.chunk({d: case["chunksizes"][d] for d in case["dims"]})
        if case["chunk"] == "both":
            # dask groupers need expected_groups
            exp = []
            newby = []
            for b, g in zip(by, gobjs):
                lab = o[b] if isinstance(b, str) else b
                vals = np.asarray(g.values).reshape(-1)
                if vals.dtype.kind == "f":
                    vals = vals[~np.isnan(vals)]
                exp.append(np.unique(vals))
                labc = lab.chunk({d: case["chunksizes"][d] for d in lab.dims})
                if isinstance(b, str):
                    o = o.assign_coords({b: labc})
                    newby.append(b)
                else:
                    newby.append(labc)
            byc = newby
            if case["gkind"] != "bins1d":
                kw["expected_groups"] = tuple(exp) if len(exp) > 1 else exp[0]
        else:
            # groupers stay in memory
            for b in by:
                if isinstance(b, str) and hasattr(o[b].data, "dask"):
                    o = o.assign_coords({b: obj[b].compute()})
    res = xarray_reduce(o, *byc, **kw)
    assert isinstance(res, (xr.DataArray, xr.Dataset))
    return res.compute()


def execute(case) -> Outcome:
    import xarray as xr

    out = Outcome()
    func = case["func"]
    obj, by, gobjs = build(case)
    rdims = reduced_dims(case)
    out.label(f"func={func}", f"gkind={case['gkind']}", f"dataset={case['dataset']}", f"dim={'none' if case['dim'] is None else 'given'}",
              f"chunk={case['chunk']}", f"skipna={case['skipna']}")  # fmt: skip
    permuted = case["dims"] != sorted(case["dims"], key=DIMS.index)
    passthrough = bool(case["dataset"]) and not any(d in (case["extra_var_dims"] or []) for d in rdims)
    out.nontrivial = len(case["dims"]) >= 2 and (permuted or case["gkind"] in ("coord2d", "two") or passthrough)

    try:
        got = flox_call(obj, by, gobjs, case)
        fkind = "value"
    except REFUSALS as e:
        fkind, ferr = "refusal", e
    except Exception as e:  # noqa: BLE001
        fkind, ferr = "error", e
    nat = None
    nkind = "skip"
    if len(by) == 1:
        try:
            nat = native(obj, by, case)
            nkind = "value"
        except Exception as e:  # noqa: BLE001 - native refuses this configuration
            nkind = f"native-refuses:{type(e).__name__}"
    out.label(f"flox={fkind}", f"native={nkind.split(':')[0]}")
    if fkind == "error":
        out.add(("exception", type(ferr).__name__, innermost_flox_frame(ferr)), f"xarray_reduce raised {type(ferr).__name__}: {str(ferr)[:200]} case={brief(case)}")
        return out
    if fkind == "refusal":
        return out
    gvars = dict(got.data_vars) if isinstance(got, xr.Dataset) else {"v": got}

    # pass-through variables (property's own clause)
    if isinstance(obj, xr.Dataset):
        for name, v in obj.data_vars.items():
            if not any(d in v.dims for d in rdims) and name in gvars:
                g = gvars[name]
                try:
                    b = v.broadcast_like(g) if set(v.dims) <= set(g.dims) else v
                    same = set(g.dims) >= set(v.dims) and np.allclose(g.transpose(*b.dims).values, b.values, equal_nan=True)
                except Exception:  # noqa: BLE001
                    same = False
                if not same:
                    allgd = [d for g_ in case["groupers"] for d in g_["dims"]]
                    path = "plain-reduction-shortcut" if all(d not in allgd for d in rdims) else "grouped"
                    out.add(("pass-through", path), f"func={func}: variable {name!r} lacks the reduced dims {rdims} but was changed: input dims {v.dims} values "
                            f"{v.values.tolist()} -> dims {g.dims} values {g.values.tolist()} case={brief(case)}")  # fmt: skip

    if nat is not None and case["gkind"] == "bins1d":
        # native may drop empty bins; flox keeps every requested bin (filled): compare on native's bins
        bname = case["groupers"][0]["name"] + "_bins"
        try:
            if bname not in got.dims or bname not in nat.dims:
                raise KeyError(bname)
            # empty bins are "absent requested labels": their default value is unspecified (C05) - compare occupied bins
            import pandas as pd

            g0 = case["groupers"][0]
            ii = pd.IntervalIndex.from_breaks(g0["edges"])
            codes = pd.cut(dec(g0["spec"]).reshape(-1), ii).codes
            occupied = [ii[i] for i in sorted(set(int(c) for c in codes if c >= 0))]
            nat = nat.sel({bname: occupied})
            got = got.sel({bname: occupied})
            gvars = dict(got.data_vars) if isinstance(got, xr.Dataset) else {"v": got}
        except Exception as e:  # noqa: BLE001
            out.add(("bins-coordinate", "dataset" if case["dataset"] else "dataarray"), f"binned result cannot be aligned with native bins: {type(e).__name__}: {str(e)[:150]}; "
                    f"flox dims {got.dims} coords {list(got.coords)}; native dims {nat.dims} case={brief(case)}")  # fmt: skip
            return out
    if nat is not None:
        nvars = dict(nat.data_vars) if isinstance(nat, xr.Dataset) else {"v": nat}
        compare_native(out, case, obj, gvars, nvars, got, nat, rdims)
    elif case["gkind"] != "bins1d":
        compare_core(out, case, obj, by, gobjs, gvars, rdims)
    return out


def brief(case):
    c = dict(case)
    c["arr"] = {"dt": case["arr"]["dt"], "sh": case["arr"]["sh"]}
    return c


def compare_native(out, case, obj, gvars, nvars, got, nat, rdims):
    import xarray as xr

    func = case["func"]
    gd = case["groupers"][0]["dims"]
    path = "plain-reduction-shortcut" if all(d not in gd for d in rdims) else "grouped"
    kindtag = ("dataset" if case["dataset"] else "dataarray", f"gndim={len(gd)}" + ("-binned" if case["gkind"] == "bins1d" else ""), path)
    if set(gvars) != set(nvars):
        out.add(("variables", *kindtag), f"variables {sorted(gvars)} != native {sorted(nvars)} case={brief(case)}")
        return
    for name in gvars:
        g, n = gvars[name], nvars[name]
        vin = obj[name] if isinstance(obj, xr.Dataset) else obj
        if isinstance(obj, xr.Dataset) and not any(d in vin.dims for d in rdims):
            continue  # pass-through variable: not held to native (native applies the reduction to it)
        if set(g.dims) != set(n.dims):
            out.add(("dims-set", *kindtag), f"{name}: dims {g.dims} vs native {n.dims} case={brief(case)}")
            continue
        gt = g.transpose(*n.dims)
        if gt.shape != n.shape:
            miss = "missing-labels" if any(x == "nan" for x in case["groupers"][0]["spec"]["v"]) else "-"
            out.add(("shape", *kindtag, miss), f"{name}: shape {dict(zip(gt.dims, gt.shape))} vs native {dict(zip(n.dims, n.shape))} case={brief(case)}")
            continue
        a, b = np.asarray(gt.values), np.asarray(n.values)
        if a.dtype.kind in "biuf" and b.dtype.kind in "biuf":
            ok = bool(np.all(close(a, b, 1e-12, 1e-12) if case["arr"]["dt"] != "<f4" else close(a, b, 1e-5, 1e-6)))
        else:
            ok = bool(np.array_equal(a, b))
        if not ok:
            mc = "min_count-given" if case["min_count"] is not None else "-"
            if not all(d in vin.dims for d in gd):
                mc = "variable-lacks-grouper-dims"
            elif path == "plain-reduction-shortcut" and any(x == "nan" for x in case["groupers"][0]["spec"]["v"]):
                mc = "missing-labels"
            out.add(("values", func, *kindtag, mc), f"{name}: func={func} skipna={case['skipna']} min_count={case['min_count']} values (native dim order "
                    f"{n.dims}) {a.tolist()} != native {b.tolist()} case={brief(case)}")  # fmt: skip
            continue
        if tuple(g.dims) != tuple(n.dims):
            out.add(("dim-order", *kindtag), f"{name}: dimension order {g.dims} vs native {n.dims} (values agree) case={brief(case)}")
        if case["keep_attrs"] and dict(g.attrs) != dict(n.attrs):
            out.add(("attrs", "variable", *kindtag), f"{name}: attrs {dict(g.attrs)} vs native {dict(n.attrs)}")
    # coordinates
    gc, nc = set(got.coords), set(nat.coords)
    if gc != nc:
        out.add(("coord-names", *kindtag), f"coordinates {sorted(map(str, gc))} vs native {sorted(map(str, nc))} case={brief(case)}")
    else:
        for cname in gc:
            a, b = got.coords[cname], nat.coords[cname]
            if set(a.dims) != set(b.dims) or not np.array_equal(np.asarray(a.transpose(*b.dims).values).astype(str), np.asarray(b.values).astype(str)):
                miss = "missing-labels" if any(x == "nan" for x in case["groupers"][0]["spec"]["v"]) else "-"
                out.add(("coord-values", *kindtag, miss), f"coordinate {cname!r}: {a.values.tolist()} vs native {b.values.tolist()} case={brief(case)}")
            elif case["keep_attrs"] and dict(a.attrs) != dict(b.attrs):
                out.add(("attrs", "coordinate", *kindtag), f"coordinate {cname!r}: attrs {dict(a.attrs)} vs native {dict(b.attrs)} case={brief(case)}")
            if (cname in got.indexes) != (cname in nat.indexes):
                out.add(("coord-index", *kindtag), f"coordinate {cname!r}: indexed in one result only")
    if isinstance(got, xr.DataArray) and got.name != nat.name:
        out.add(("name", *kindtag), f"name {got.name!r} vs native {nat.name!r}")
    if case["keep_attrs"] and isinstance(got, xr.Dataset) and dict(got.attrs) != dict(nat.attrs):
        out.add(("attrs", "dataset", *kindtag), f"dataset attrs {dict(got.attrs)} vs native {dict(nat.attrs)}")


def compare_core(out, case, obj, by, gobjs, gvars, rdims):
    """native xarray refuses: values must equal groupby_reduce on the underlying arrays"""
    import xarray as xr
    from flox.core import groupby_reduce

    func = case["func"]
    v = obj["v"] if isinstance(obj, xr.Dataset) else obj
    if not any(d in v.dims for d in rdims):
        return
    gdims = []
    for g in gobjs:
        for d in g.dims:
            if d not in gdims:
                gdims.append(d)
    if any(d not in gdims for d in rdims):
        return  # reducing over an extra non-grouper dim: no simple core equivalent
    order = [d for d in v.dims if d not in gdims] + [d for d in gdims if d not in rdims] + [d for d in gdims if d in rdims]
    arr = v.transpose(*order).values
    core_gd = [d for d in order if d in gdims]
    labs = [g.broadcast_like(v.isel({d: 0 for d in v.dims if d not in gdims}, drop=True)).transpose(*core_gd).values for g in gobjs]
    f = func
    skip = case["skipna"]
    if (skip or (skip is None and arr.dtype.kind in "cfO")) and func not in ("count", "any", "all"):
        f = "nan" + func
    kw = {"func": f}
    if case["min_count"] is not None:
        kw["min_count"] = case["min_count"]
    if len(rdims) < len(gdims):
        kw["axis"] = tuple(range(-len(rdims), 0))
    try:
        res, *groups = groupby_reduce(arr, *labs, **kw)
    except Exception:  # noqa: BLE001
        out.label("core-refuses")
        return
    g = gvars["v"]
    out.label("core-oracle")
    gnames = [x.name for x in gobjs]
    want_dims = [d for d in order if d not in rdims] + gnames
    if set(g.dims) != set(want_dims):
        out.add(("core-dims", f"ng={len(gobjs)}"), f"dims {g.dims} vs expected set {want_dims} case={brief(case)}")
        return
    a = g.transpose(*want_dims).values
    if a.shape != np.asarray(res).shape or not bool(np.all(close(a, np.asarray(res), 1e-12, 1e-12))):
        out.add(("core-values", func, f"ng={len(gobjs)}"), f"func={func}: xarray_reduce {a.tolist()} != groupby_reduce on the underlying arrays "
                f"{np.asarray(res).tolist()} case={brief(case)}")  # fmt: skip
