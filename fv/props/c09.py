"""C09 — cohort planner sound: labels partitioned, blocks covered, members counted once."""

from __future__ import annotations

import itertools

import numpy as np
from hypothesis import strategies as st

from .. import gen
from ..base import Outcome, run
from ..codec import dec

ID = "C09"
RULE = (
    "(a) planner as a pure function, find_group_cohorts(labels, chunks, expected_groups, merge): EXHAUSTIVE over all 1-D code "
    "arrays of length <=6 (thorough 7) over {-1,0,1,2,3} in canonical (first-appearance) relabelling x all chunk "
    "compositions x merge in {F,T} x expected in {None, RangeIndex(max+1), RangeIndex(max+3)}, and all 2-D arrays up to "
    "2x3 / 3x2 over {-1,0,1,2} x all per-axis compositions; Hypothesis-sampled beyond (1-D up to 60, 2-D up to 8x8, "
    "periodic / runs / spatial / random styles). Validity predicate (many outputs are legal): P1 every present label in "
    "exactly one cohort; P2 each cohort's block tuple contains every block (computed independently) holding a member of its "
    "labels; P3 'blockwise' only if every present label lies in one block; P4 empty cohorts only with 'map-reduce'; no "
    "exception. (b) graphs: for generated chunked reductions under every strategy the dependency closure of every output "
    "chunk of the unexecuted graph contains every input block of the same batch block that holds one of its labels and no "
    "block of another batch block. (c) provenance: int64 data 3**i with func=sum: the base-3 digits of every group's result "
    "must be 1 exactly for its members, for every strategy / reindex. Non-trivial = >=2 blocks and >=2 labels with "
    "different block sets."
)
FUZZ_TARGET = "c09"  # thorough tier: 8 atheris shards on find_group_cohorts with the validity predicate as oracle
FUZZ_RUNS = 60000
BUDGET = {"quick": 500, "thorough": 3000}
ASSUMPTIONS = [
    "code arrays whose elements are all -1 (no present label) are skipped (degenerate input recorded under C02's known finding)",
    "absent labels may be listed in a cohort (harmless): P1 constrains present labels only",
]


def compositions(n):
    for cuts in itertools.product([0, 1], repeat=n - 1):
        c, cur = [], 1
        for x in cuts:
            if x:
                c.append(cur)
                cur = 1
            else:
                cur += 1
        c.append(cur)
        yield c


def canonical_sequences(n, nsym):
    """code sequences over {-1, 0..nsym-1} where non-negative codes first appear in increasing order"""

    def rec(prefix, nxt):
        if len(prefix) == n:
            yield list(prefix)
            return
        for s in [-1] + list(range(min(nxt + 1, nsym))):
            prefix.append(s)
            yield from rec(prefix, max(nxt, s + 1))
            prefix.pop()

    yield from rec([], 0)


def enumerate_cases(tier):
    maxn = 6 if tier == "quick" else 7
    for n in range(1, maxn + 1):
        for seq in canonical_sequences(n, 4):
            if max(seq) < 0:
                continue
            for ci, c in enumerate(compositions(n)):
                for merge in (False, True):
                    for extra in (None, 0, 2):
                        # exhaustive over (sequence, chunks); (merge, expected) fully crossed
                        yield {"mode": "planner", "labels": {"dt": "<i8", "sh": [n], "v": seq}, "chunks": [c], "merge": merge, "exp_extra": extra}
                    if (ci + n) % 3 == 0 and max(seq) >= 1:
                        # the same layout with GAPS in the codes (labels that are expected but absent, e.g. empty bins)
                        gseq = [x if x < 0 else 2 * x + 1 for x in seq]
                        yield {"mode": "planner", "labels": {"dt": "<i8", "sh": [n], "v": gseq}, "chunks": [c], "merge": (ci % 2 == 0), "exp_extra": 1}
    # 2-D
    for shp in ([2, 2], [2, 3], [3, 2]):
        n = shp[0] * shp[1]
        for seq in canonical_sequences(n, 3):
            if max(seq) < 0:
                continue
            for c0 in compositions(shp[0]):
                for c1 in compositions(shp[1]):
                    for merge in (False, True):
                        yield {"mode": "planner", "labels": {"dt": "<i8", "sh": shp, "v": seq}, "chunks": [c0, c1], "merge": merge,
                               "exp_extra": None if merge else 1}  # fmt: skip


def exhaustive_note(tier):
    return (
        f"find_group_cohorts on all canonical 1-D code arrays of length 1..{6 if tier == 'quick' else 7} over {{-1,0,1,2,3}} x all chunk "
        "compositions x merge x 3 expected_groups variants, and all 2-D code arrays of shape 2x2, 2x3, 3x2 over {-1,0,1,2} x all "
        "per-axis compositions"
    )


@st.composite
def planner_cases(draw, tier="quick"):
    if draw(st.integers(0, 2)) == 0:
        shp = [draw(st.integers(1, 8)), draw(st.integers(1, 8))]
    else:
        shp = [draw(st.integers(2, 60))]
    n = int(np.prod(shp))
    ng = draw(st.integers(1, 12))
    style = draw(st.sampled_from(["random", "periodic", "periodic", "runs", "runs", "blocks", "sorted"]))
    codes = gen.draw_label_codes(draw, n, ng, style)
    if draw(st.booleans()):
        for i in draw(st.lists(st.integers(0, n - 1), max_size=5)):
            codes[i] = -1
    if max(codes) < 0:
        codes[0] = 0
    if draw(st.booleans()):
        # gaps: some expected codes never occur (absent labels in the middle of the range)
        stride = draw(st.sampled_from([2, 3]))
        off = draw(st.integers(0, 2))
        codes = [x if x < 0 else stride * x + off for x in codes]
    chunks = [gen.draw_chunks(draw, s, max_blocks=16, styles=["uniform", "uniform", "arbitrary", "ones", "single"]) for s in shp]
    return {"mode": "planner", "labels": {"dt": "<i8", "sh": shp, "v": codes}, "chunks": chunks, "merge": draw(st.booleans()),
            "exp_extra": draw(st.sampled_from([None, 0, 3]))}  # fmt: skip


@st.composite
def graph_cases(draw, tier="quick"):
    by_ndim = draw(st.sampled_from([1, 1, 2]))
    if by_ndim == 1:
        by_shape = [draw(st.integers(2, 30))]
    else:
        by_shape = [draw(st.integers(1, 5)), draw(st.integers(2, 6))]
    n = int(np.prod(by_shape))
    batch = draw(st.sampled_from([[], [2], [3]]))
    ng = draw(st.integers(1, 9))
    codes = gen.draw_label_codes(draw, n, ng, draw(st.sampled_from(["random", "periodic", "runs", "blocks"])))
    labels = [float(c) for c in codes]
    if draw(st.booleans()):
        for i in draw(st.lists(st.integers(0, n - 1), max_size=3)):
            labels[i] = "nan"
    if all(x == "nan" for x in labels):
        labels[0] = 0.0
    shape = batch + by_shape
    chunks = [gen.draw_chunks(draw, s, max_blocks=24 if by_ndim == 1 else 12) for s in shape]
    present = sorted({x for x in labels if x != "nan"})
    mode = draw(st.sampled_from(["none", "none", "superset", "subset"]))
    case = {"mode": "graph", "shape": shape, "by": {"dt": "<f8", "sh": by_shape, "v": labels}, "chunks": chunks,
            "method": draw(st.sampled_from([None, "map-reduce", "cohorts", "cohorts"])),
            "reindex": draw(st.sampled_from([None, None, True, False])), "sort": draw(st.sampled_from([True, True, False]))}  # fmt: skip
    if mode == "superset":
        case["expected"] = present + [77.0]
    elif mode == "subset" and len(present) > 1:
        case["expected"] = present[:-1]
    return case


def strategy(tier):
    return st.one_of(planner_cases(tier), graph_cases(tier), graph_cases(tier))


# ----------------------------------------------------------------------------- planner predicate


def blocks_of_labels(labels, chunks):
    """independent computation: dict label -> set of flat block indices (C order over the chunk grid)"""
    grid = [gen.blocks_of(c) for c in chunks]
    nblocks = [len(g) for g in grid]
    out = {}
    for flat, idx in enumerate(itertools.product(*[range(k) for k in nblocks])):
        sl = tuple(slice(*grid[ax][i]) for ax, i in enumerate(idx))
        for lab in np.unique(labels[sl]):
            if lab >= 0:
                out.setdefault(int(lab), set()).add(flat)
    return out, int(np.prod(nblocks))


def exec_planner(case, out):
    import pandas as pd
    from flox.core import find_group_cohorts

    labels = dec(case["labels"])
    chunks = [tuple(c) for c in case["chunks"]]
    extra = case.get("exp_extra")
    expected = None if extra is None else pd.RangeIndex(int(labels.max()) + 1 + extra)
    merge = case["merge"]
    lb, nblocks = blocks_of_labels(labels, chunks)
    distinct_sets = {frozenset(v) for v in lb.values()}
    out.nontrivial = nblocks >= 2 and len(distinct_sets) >= 2
    out.label("mode=planner", f"ndim={labels.ndim}", f"merge={merge}", f"expected={'none' if extra is None else 'range'}")
    before = labels.copy()
    r = run(lambda: find_group_cohorts(labels, chunks, expected_groups=expected, merge=merge))
    if r.kind != "value":
        et, fr = r.errsig()
        out.add(("planner-exception", et, fr), f"find_group_cohorts raised {r.describe()} labels={labels.tolist()} chunks={chunks} merge={merge} expected={expected}")
        return out
    if not np.array_equal(before, labels):
        out.add(("planner-mutates-labels",), "find_group_cohorts modified its labels argument")
    method, cohorts = r.value
    out.label(f"preferred={method}")
    where = f"labels={labels.tolist()} chunks={chunks} merge={merge} expected={expected} -> ({method!r}, {dict(cohorts)!r})"
    if method not in ("blockwise", "cohorts", "map-reduce"):
        out.add(("planner-bad-method",), where)
        return out
    if not cohorts:
        if method != "map-reduce":
            out.add(("P4-empty-cohorts", method), f"empty cohorts with preferred method {method!r}: {where}")
        return out
    seen = {}
    for blks, labs in cohorts.items():
        bset = set(int(b) for b in (blks if isinstance(blks, (tuple, list)) else [blks]))
        for lab in labs:
            lab = int(lab)
            if lab in lb:
                if lab in seen:
                    out.add(("P1-label-in-two-cohorts",), f"label {lab} is in two cohorts: {where}")
                    return out
                seen[lab] = bset
                if not lb[lab] <= bset:
                    out.add(("P2-cohort-misses-block", f"merge={merge}", method), f"label {lab} occurs in blocks {sorted(lb[lab])} but its cohort covers {sorted(bset)}: {where}")
                    return out
    missing = [lab for lab in lb if lab not in seen]
    if missing:
        out.add(("P1-label-lost", f"merge={merge}", method), f"present labels {missing} are in no cohort: {where}")
        return out
    if method == "blockwise" and any(len(v) > 1 for v in lb.values()):
        out.add(("P3-blockwise-with-straddling-label",), f"'blockwise' proposed although a label spans several blocks: {where}")
    return out


# ----------------------------------------------------------------------------- graphs + provenance


def exec_graph(case, out):
    import dask.array as da
    from dask._task_spec import convert_legacy_graph
    from flox.core import groupby_reduce

    shape = case["shape"]
    by = dec(case["by"])
    n = int(np.prod(shape))
    arr = np.array([3**i for i in range(n)], dtype=np.int64).reshape(shape) if n <= 33 else np.arange(n, dtype=np.int64).reshape(shape)
    prov = n <= 33
    nb = len(shape) - by.ndim
    chunks = tuple(tuple(c) for c in case["chunks"])
    name = "verifinput-" + "x".join(map(str, shape))
    d = da.from_array(arr, chunks=chunks, name=name)
    kw = {"func": "sum", "sort": case.get("sort", True)}
    if case.get("method") is not None:
        kw["method"] = case["method"]
    if case.get("reindex") is not None:
        kw["reindex"] = case["reindex"]
    if case.get("expected") is not None:
        kw["expected_groups"] = np.array(case["expected"], dtype=float)
        kw["fill_value"] = 0
    out.label("mode=graph", f"method={case.get('method')}", f"reindex={case.get('reindex')}", f"byndim={by.ndim}", f"prov={prov}")
    r = run(lambda: groupby_reduce(d, by, **kw))
    if r.kind == "refusal":
        out.label("refusal")
        return out
    if r.kind == "error":
        et, fr = r.errsig()
        out.add(("exception", et, fr), f"{r.describe()} case={case}")
        return out
    result, groups = r.value
    groups = np.asarray(groups)
    import dask

    if not dask.is_dask_collection(result):
        out.label("not-lazy")
        return out
    # independent block bookkeeping
    lab_chunks = chunks[nb:]
    lb, nlabblocks = blocks_of_float_labels(by, lab_chunks)
    nblocks_total = int(np.prod([len(c) for c in chunks]))
    out.nontrivial = nlabblocks >= 2 and len({frozenset(v) for v in lb.values()}) >= 2
    if np.isnan(np.asarray(result.chunks[-1], dtype=float)).any():
        out.label("unknown-chunks")
    else:
        graph = convert_legacy_graph(dict(result.__dask_graph__()))
        deps = {k: set(v.dependencies) for k, v in graph.items()}
        input_keys = {k for k in graph if isinstance(k, tuple) and k[0] == name}
        nbatchblocks = [len(c) for c in chunks[:nb]]
        labgrid = [len(c) for c in lab_chunks]
        bounds = np.cumsum((0,) + tuple(result.chunks[-1]))
        for okey in itertools.product(*[range(len(c)) for c in result.chunks]):
            key = (result.name,) + okey
            if key not in graph:
                out.add(("graph-missing-output-key",), f"output key {key} not in graph")
                break
            closure, stack = set(), [key]
            while stack:
                k = stack.pop()
                if k in closure:
                    continue
                closure.add(k)
                stack.extend(deps.get(k, ()))
            got_inputs = closure & input_keys
            slots = range(int(bounds[okey[-1]]), int(bounds[okey[-1] + 1]))
            batchblk = okey[: len(nbatchblocks)] if nb else ()
            required = set()
            for s in slots:
                lab = groups[s]
                for flat in lb.get(float(lab), ()):
                    labidx = np.unravel_index(flat, labgrid)
                    required.add((name,) + tuple(batchblk) + tuple(int(i) for i in labidx))
            if not required <= got_inputs:
                out.add(("closure-misses-block", f"method={case.get('method')}"), f"output chunk {okey} (labels {groups[list(slots)].tolist()}) does not depend on input "
                        f"block(s) {sorted(required - got_inputs)}; case={case}")  # fmt: skip
                break
            foreign = {k for k in got_inputs if nb and tuple(k[1 : 1 + nb]) != tuple(batchblk)}
            if foreign:
                out.add(("closure-crosses-batch", f"method={case.get('method')}"), f"output chunk {okey} depends on blocks of another batch block: {sorted(foreign)[:4]}; case={case}")
                break
        _ = nblocks_total
    # provenance
    if prov:
        c = run(lambda: np.asarray(result.compute(scheduler="sync")))
        if c.kind != "value":
            et, fr = c.errsig()
            out.add(("exception", et, fr), f"compute: {c.describe()} case={case}")
            return out
        res = c.value
        byf = np.broadcast_to(by, arr.shape[nb:]).reshape(-1)
        rows = arr.reshape(arr.shape[:nb] + (-1,)).reshape(-1, byf.size)
        res2 = res.reshape(-1, res.shape[-1])
        for gi, lab in enumerate(groups.tolist()):
            sel = byf == lab
            for ri in range(rows.shape[0]):
                want = int(rows[ri][sel].sum())
                got = int(res2[ri][gi])
                if got != want:
                    out.add(("provenance", f"method={case.get('method')}", f"reindex={case.get('reindex')}"),
                            f"group {lab}: sum {got} != {want}; base-3 digits got={digits3(got)} want={digits3(want)} (digit k = multiplicity of element k) case={case}")  # fmt: skip
                    return out
    return out


def digits3(x):
    if x < 0:
        return f"negative({x})"
    d = []
    while x:
        d.append(x % 3)
        x //= 3
    return d


def blocks_of_float_labels(by, lab_chunks):
    grid = [gen.blocks_of(c) for c in lab_chunks]
    nblocks = [len(g) for g in grid]
    out = {}
    for flat, idx in enumerate(itertools.product(*[range(k) for k in nblocks])):
        sl = tuple(slice(*grid[ax][i]) for ax, i in enumerate(idx))
        sub = by[sl].reshape(-1)
        for lab in np.unique(sub[~np.isnan(sub)]):
            out.setdefault(float(lab), set()).add(flat)
    return out, int(np.prod(nblocks))


def execute(case) -> Outcome:
    out = Outcome()
    if case["mode"] == "planner":
        return exec_planner(case, out)
    return exec_graph(case, out)
