"""C19 — unsupported requests refused cleanly; auto plan works wherever map-reduce does."""

from __future__ import annotations

import itertools

import numpy as np
from hypothesis import strategies as st

from ..base import Outcome, run
from ..cmp import close, tol_for
from ..ref import ARG_FUNCS

ID = "C19"
RULE = (
    "Cells of the argument product: reduction (16 representatives incl. every arg / first-last / order statistic) x engine "
    "{None, numpy, flox, numbagg, numba} x reindex {None, True, False} x value array numpy/dask x labels numpy/dask x label "
    "ndim 1-3 x axis {all, last, last-two} x expected_groups given/absent x layout {single block, 2-3 blocks, more blocks "
    "than split_every, size-1 blocks, no requested label present}; every cell is evaluated under method = map-reduce, None, "
    "cohorts and (only when every group lies inside one block by construction) blockwise, with small generated data that "
    "respect the documented contract (aligned shapes, a fill whenever a requested label may be absent). Quick samples the "
    "product with Hypothesis; thorough enumerates it completely. Oracle: (1) every failure, at call or at compute time, is "
    "ValueError / NotImplementedError / ImportError; (2) every value equals the eager result; (3) if explicit map-reduce "
    "yields a value, method=None yields the same value; (4) explicit cohorts / blockwise yield that value or refuse. "
    "Non-trivial = the cell produced a value, or failed/refused inside graph construction, compute or the eager kernel "
    "with a chunked input."
)
BUDGET = {"quick": 1050, "thorough": 6300}
WALL = {"quick": 500, "thorough": 3400}
ASSUMPTIONS = [
    "engine='numba' cells are sampled sparsely in the quick tier (JIT cost)",
    "arg-reductions and first/last are generated on NaN-free data (the domain on which their value is specified)",
]

FUNCS = ["sum", "nanmean", "max", "nanmin", "count", "var", "prod", "any", "argmax", "nanargmin", "first", "nanlast", "last",
         "median", "nanquantile", "nanstd"]  # fmt: skip
ENGINES = [None, "numpy", "flox", "numbagg", "numba"]
REINDEX = [None, True, False]
LAYOUTS = ["single", "few", "many", "ones", "absent"]
AXES = ["all", "last", "last2"]
DIMS = dict(func=FUNCS, engine=ENGINES, reindex=REINDEX, arr_dask=[True, False], by_dask=[False, True], bndim=[1, 2, 3], axis=AXES,
            expected=[False, True], layout=LAYOUTS, labels=["sequential", "random"], fill=["default", "nan"])  # fmt: skip


def enumerate_cases(tier):
    if tier != "thorough":
        return
    keys = list(DIMS)
    for combo in itertools.product(*[DIMS[k] for k in keys]):
        cell = dict(zip(keys, combo))
        if cell["axis"] == "last2" and cell["bndim"] < 3:
            continue
        if cell["labels"] == "random" and cell["bndim"] > 1:
            continue
        cell["seed"] = 0
        yield cell


def exhaustive_note(tier):
    if tier != "thorough":
        return None
    return "the complete cell product " + " x ".join(f"{k}({len(v)})" for k, v in DIMS.items()) + " (minus impossible axis/ndim pairs), each under 3-4 methods"


@st.composite
def cells(draw, tier="quick"):
    cell = {k: draw(st.sampled_from(v)) for k, v in DIMS.items()}
    if cell["engine"] == "numba" and draw(st.integers(0, 3)) != 0:
        cell["engine"] = draw(st.sampled_from([None, "numpy", "flox", "numbagg"]))
    if cell["axis"] == "last2" and cell["bndim"] < 3:
        cell["axis"] = draw(st.sampled_from(["all", "last"]))
    if cell["labels"] == "random" and cell["bndim"] > 1:
        cell["labels"] = "sequential"
    cell["seed"] = draw(st.integers(0, 5))
    return cell


def strategy(tier):
    return cells(tier)


def build(cell):
    """-> arr, by, kwargs (without method), chunks, blockwise_ok"""
    seed = cell.get("seed", 0)
    layout = cell["layout"]
    nlast = {"single": 6, "few": 6, "many": 12, "ones": 5, "absent": 6}[layout]
    if cell["labels"] == "sequential":
        if layout == "ones":
            labs = np.arange(nlast) * 2 + 1
        else:
            ngroups = 3 if layout != "many" else 6
            labs = np.repeat(np.arange(ngroups) * 2 + 1, nlast // ngroups)
        chunk_last = {"single": (nlast,), "few": (2, 2, 2), "many": (2,) * 6, "ones": (1,) * nlast, "absent": (3, 3)}[layout]
        blockwise_ok = True
    else:
        rng = np.random.RandomState(seed)
        labs = rng.randint(0, 3, size=nlast) * 2 + 1
        chunk_last = {"single": (nlast,), "few": (3, 3), "many": (2,) * 6, "ones": (1,) * nlast, "absent": (3, 3)}[layout]
        blockwise_ok = layout == "single"
    b = cell["bndim"]
    lead = (2,) * (b - 1)
    by = np.broadcast_to(labs, lead + (nlast,)).copy()
    func = cell["func"]
    rng = np.random.RandomState(100 + seed)
    shape = (2,) + lead + (nlast,)  # one batch dim
    if func in ("any",):
        arr = rng.randint(0, 2, size=shape).astype(bool)
    else:
        arr = rng.randint(-3, 4, size=shape).astype(np.float64)
        if func not in ARG_FUNCS and func not in ("first", "last", "median") and seed % 2:
            arr[0, ..., 1] = np.nan
    kw = {"func": func}
    if func == "nanquantile":
        kw["finalize_kwargs"] = {"q": 0.25}
    if func in ("var", "nanstd"):
        kw["finalize_kwargs"] = {"ddof": 1}
    if cell["axis"] == "last":
        kw["axis"] = -1
    elif cell["axis"] == "last2":
        kw["axis"] = (-2, -1)
    present = np.unique(labs)
    partial = (cell["axis"] == "last" and b > 1) or cell["axis"] == "last2"
    need_expected = cell["expected"] or layout == "absent" or cell["by_dask"] and partial
    if layout == "absent":
        kw["expected_groups"] = np.array([100, 101])
    elif need_expected:
        # requested but absent labels: one in the middle of the range (an "empty bin") and one beyond it
        kw["expected_groups"] = np.sort(np.concatenate([present, [4, 99]])) if cell["expected"] else present
    if "expected_groups" in kw or partial:
        kw["fill_value"] = -1 if func in ARG_FUNCS else (0 if func == "any" else -1.0)
        if cell.get("fill") == "nan" and func != "any":
            kw["fill_value"] = np.nan
    if cell["engine"] is not None:
        kw["engine"] = cell["engine"]
    chunks = ((1, 1),) + tuple((s,) for s in lead) + (chunk_last,)
    return arr, by, kw, chunks, blockwise_ok


def classify(r):
    return r.kind


def execute(cell) -> Outcome:
    import dask
    import dask.array as da
    from flox.core import groupby_reduce

    out = Outcome()
    arr, by, kw, chunks, blockwise_ok = build(cell)
    func = cell["func"]
    out.label(f"func={func}", f"engine={cell['engine']}", f"layout={cell['layout']}", f"bndim={cell['bndim']}", f"axis={cell['axis']}")
    rtol, atol = tol_for(func, arr.dtype)
    desc = {k: v for k, v in cell.items()}

    def norm(res):
        result, *groups = res
        lazies = [x for x in (result, *groups) if dask.is_dask_collection(x)]
        if lazies:
            with dask.config.set(scheduler="sync"):
                comp = dask.compute(result, *groups)
            result, groups = comp[0], comp[1:]
        return np.asarray(result), [np.asarray(g) for g in groups]

    eager = run(lambda: norm(groupby_reduce(arr, by, **kw)))
    if eager.kind == "error":
        et, fr = eager.errsig()
        out.add(("internal-error", et, fr), f"eager call: {eager.describe()} cell={desc}")
    chunked = cell["arr_dask"] or cell["by_dask"]
    if not chunked:
        out.nontrivial = eager.kind != "refusal" or "flox" in str(getattr(eager.exc, "__traceback__", ""))
        out.label(f"eager:{eager.kind}")
        return out

    def call(method):
        a = da.from_array(arr, chunks=chunks) if cell["arr_dask"] else arr
        nb = arr.ndim - by.ndim
        b = da.from_array(by, chunks=chunks[nb:]) if cell["by_dask"] else by
        extra = {}
        if method is not None:
            extra["method"] = method
        if cell["reindex"] is not None:
            extra["reindex"] = cell["reindex"]
        return norm(groupby_reduce(a, b, **kw, **extra))

    methods = ["map-reduce", None, "cohorts"] + (["blockwise"] if blockwise_ok else [])
    results = {}
    for m in methods:
        r = run(lambda m=m: call(m))
        results[m] = r
        out.label(f"{m}:{r.kind}")
        if r.kind == "error":
            et, fr = r.errsig()
            out.add(("internal-error", et, fr), f"method={m}: {r.describe()} cell={desc}")
    out.nontrivial = True

    def same(a, b):
        (ra, ga), (rb, gb) = a, b
        if ra.shape != rb.shape or len(ga) != len(gb):
            return False
        if any(x.shape != y.shape or not np.array_equal(x.astype(str), y.astype(str)) for x, y in zip(ga, gb)):
            return False
        return bool(np.all(close(ra, rb, rtol, atol)))

    ref = eager.value if eager.ok else None
    for m, r in results.items():
        if r.ok and ref is not None and not same(r.value, ref):
            out.add(("wrong-answer", f"method={m}", f"reindex={cell['reindex']}", "engine=numba" if cell["engine"] == "numba" else "engine=other", func_class(func)),
                    f"method={m}: value {r.value[0].tolist()} (groups {[g.tolist() for g in r.value[1]]}) != eager "
                    f"{ref[0].tolist()} (groups {[g.tolist() for g in ref[1]]}) cell={desc}")  # fmt: skip
    mr = results["map-reduce"]
    auto = results[None]
    if mr.ok:
        if auto.kind == "refusal":
            out.add(("auto-refuses-where-mapreduce-works", type(auto.exc).__name__, func_class(func)),
                    f"method='map-reduce' gives a value but method=None is refused: {auto.describe()} cell={desc}")  # fmt: skip
        elif auto.ok and not same(auto.value, mr.value):
            out.add(("auto-differs-from-mapreduce", func_class(func)), f"method=None {auto.value[0].tolist()} != map-reduce {mr.value[0].tolist()} cell={desc}")
        for m in ("cohorts", "blockwise"):
            r = results.get(m)
            if r is not None and r.ok and not same(r.value, mr.value):
                out.add(("explicit-plan-differs", f"method={m}", func_class(func)), f"method={m} {r.value[0].tolist()} != map-reduce {mr.value[0].tolist()} cell={desc}")
    return out


def func_class(func):
    if func in ARG_FUNCS:
        return "arg"
    if func in ("first", "last", "nanfirst", "nanlast"):
        return "firstlast"
    if func in ("median", "nanmedian", "quantile", "nanquantile"):
        return "order-stat"
    if func in ("max", "min", "nanmax", "nanmin"):
        return "minmax"
    return "other"
