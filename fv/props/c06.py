"""C06 — position-sensitive reductions respect global positions across chunk boundaries."""

from __future__ import annotations

import itertools

import numpy as np
from hypothesis import strategies as st

from .. import gen
from ..base import Outcome
from ..cmp import groups_match, mismatch_vs_ref
from ..codec import dec
from ..floxcall import chunked_reduce, eager_reduce, reduce_kwargs
from ..ref import ref_1d
from .c02 import runs_are_sequential

ID = "C06"
RULE = (
    "Hypothesis: 1-D (+ optional batch dim) arrays over the tie-rich alphabet {0,1,1,2,NaN} (ints: {0,1,1,2}), ties and "
    "NaNs placed on both sides of drawn chunk borders, 1-4 interleaved groups (one third of the cases: 9-22 blocks of size "
    "1-3 and up to 8 groups, reaching the planner's cohort-merging branch and multi-level trees), chunkings incl. single chunk and all "
    "size-1, method in {None, map-reduce, cohorts} (+blockwise for first/last where accepted), split_every in "
    "{2,3,default}; plus exhaustive small scope (all sequences of length <=5 (thorough 6) over {0,1,NaN} x all "
    "chunkings x 3 label patterns). Oracle: reference = index in the WHOLE array of the first occurrence of the "
    "group's extreme / first-last (non-NaN) member; eager and every chunked plan must equal it (arg* asserted on "
    "NaN-free groups, nanarg* on not-all-NaN groups). Non-trivial = >=2 blocks and (the group's extreme occurs in >=2 "
    "blocks, or a NaN sits next to a block border)."
)
BUDGET = {"quick": 500, "thorough": 3000}
FUNCS = ["argmax", "argmin", "nanargmax", "nanargmin", "nanfirst", "nanlast", "first", "last"]
ASSUMPTIONS = ["first/last on chunked input are only generated for plans flox documents to accept (blockwise)"]


@st.composite
def cases(draw, tier="quick"):
    func = draw(st.sampled_from(FUNCS))
    dt = draw(st.sampled_from(["<f8", "<f8", "<f8", "<f4", "<i8", "|i1"]))
    big = draw(st.integers(0, 2)) == 0
    if big:
        # many blocks (>= 9) and many groups: reaches the cohort-merging branch of the planner and multi-level trees
        nblk = draw(st.integers(9, 22))
        chunks = [draw(st.sampled_from([1, 2, 2, 2, 3])) for _ in range(nblk)]
        n = sum(chunks)
    else:
        n = draw(st.integers(2, 20))
        chunks = gen.draw_chunks(draw, n, max_blocks=12)
    alpha = [0.0, 1.0, 1.0, 2.0] if "f" in dt else [0, 1, 1, 2]
    vals = draw(st.lists(st.sampled_from(alpha), min_size=n, max_size=n))
    if "f" in dt:
        # NaNs adjacent to borders
        borders = list(itertools.accumulate(chunks))[:-1]
        k = draw(st.integers(0, 3))
        for _ in range(k):
            if borders and draw(st.booleans()):
                b = draw(st.sampled_from(borders))
                pos = b - 1 if draw(st.booleans()) else b
            else:
                pos = draw(st.integers(0, n - 1))
            vals[pos] = "nan"
    batch = draw(st.sampled_from([[], [], [2]]))
    if batch:
        vals = vals + draw(st.lists(st.sampled_from(alpha), min_size=n, max_size=n))
    lab = gen.draw_labels(
        draw, n, kinds=["int", "int", "float", "str", "u1"], max_groups=8 if big else 4,
        styles=["random", "periodic", "periodic", "runs", "constant", "blocks"] + (["blocks", "random"] if big else []),
    )  # fmt: skip
    case = {"arr": {"dt": dt, "sh": batch + [n], "v": vals}, "by": lab["spec"], "func": func}
    case["engine"] = draw(st.sampled_from(["numpy", "numpy", None, "numbagg"]))
    plans = []
    achunks = ([[batch[0]]] if batch else []) + [chunks]
    if func in ("first", "last"):
        ok = len(chunks) == 1 or runs_are_sequential(lab["spec"]["v"])
        methods = ["blockwise", None] if ok else []
    else:
        methods = [None, "map-reduce", "cohorts"]
    for m in methods:
        plans.append({
            "method": m, "reindex": draw(st.sampled_from([None, None, False])), "chunks": achunks,
            "by_dask": False, "by_chunks": None, "split_every": draw(st.sampled_from([None, 2, 2, 3])),
        })  # fmt: skip
    case["plans"] = plans
    return case


def strategy(tier):
    return cases(tier)


def enumerate_cases(tier):
    """exhaustive small scope"""
    maxlen = 5 if tier == "quick" else 6
    alpha = [0.0, 1.0, "nan"]
    for n in range(2, maxlen + 1):
        comps = []
        for cuts in itertools.product([0, 1], repeat=n - 1):
            c, cur = [], 1
            for x in cuts:
                if x:
                    c.append(cur)
                    cur = 1
                else:
                    cur += 1
            c.append(cur)
            comps.append(c)
        patterns = [[0] * n, [i % 2 for i in range(n)], [0] * (n // 2) + [1] * (n - n // 2)]
        funcs = ["nanargmax", "argmax", "nanlast", "nanfirst"] if tier == "quick" else FUNCS[:6]
        for vals in itertools.product(alpha, repeat=n):
            for pi, pat in enumerate(patterns):
                for ci, c in enumerate(comps):
                    # spread functions / methods over the enumeration to bound cost
                    func = funcs[(ci + pi + n) % len(funcs)]
                    yield {
                        "arr": {"dt": "<f8", "sh": [n], "v": list(vals)},
                        "by": {"dt": "<i8", "sh": [n], "v": pat},
                        "func": func,
                        "engine": "numpy",
                        "plans": [
                            {"method": ["map-reduce", "cohorts", None][(ci + pi) % 3], "reindex": None,
                             "chunks": [c], "by_dask": False, "by_chunks": None, "split_every": 2}
                        ],
                    }  # fmt: skip


def exhaustive_note(tier):
    return (
        f"all float sequences of length 2..{5 if tier == 'quick' else 6} over {{0,1,NaN}} x all chunk compositions x "
        "3 label patterns (one group / alternating / two runs); reduction and method rotate over the enumeration"
    )


def nontrivial(case, arr, by):
    chunks = case["plans"][0]["chunks"][-1] if case["plans"] else [arr.shape[-1]]
    if len(chunks) < 2:
        return False
    blocks = gen.blocks_of(chunks)
    row = arr.reshape(-1, arr.shape[-1])[0]
    borders = [b for _, b in blocks[:-1]]
    if arr.dtype.kind == "f":
        for b in borders:
            if np.isnan(row[b - 1]) or np.isnan(row[b]):
                return True
    func = case["func"]
    for g in np.unique(by[~_isnan_lab(by)]) if by.dtype.kind == "f" else np.unique(by):
        sel = by == g
        m = row[sel]
        if arr.dtype.kind == "f":
            m = m[~np.isnan(m)]
        if m.size == 0:
            continue
        ext = m.max() if "max" in func else m.min()
        nb = 0
        for a, b in blocks:
            seg = row[a:b][sel[a:b]]
            if "arg" in func:
                if (seg == ext).any():
                    nb += 1
            elif seg.size:
                nb += 1
        if nb >= 2:
            return True
    return False


def _isnan_lab(by):
    return np.isnan(by) if by.dtype.kind == "f" else np.zeros(by.shape, bool)


def execute(case) -> Outcome:
    out = Outcome()
    arr = dec(case["arr"])
    by = dec(case["by"])
    func = case["func"]
    kw = reduce_kwargs(case)
    engine = case.get("engine")
    out.label(f"func={func}", f"dtype={arr.dtype.str}")
    rows = arr.reshape(-1, arr.shape[-1])
    refs = [ref_1d(r, by, func) for r in rows]
    keys = refs[0][0]
    if not keys:
        return out
    out.nontrivial = nontrivial(case, arr, by)

    def check(res, label):
        result, (groups,) = res.value
        if not groups_match(groups, np.asarray(keys)):
            out.add(("groups", label), f"groups {groups!r} != {keys!r} [{label}]")
            return
        if result.shape != arr.shape[:-1] + (len(keys),):
            out.add(("shape", label), f"shape {result.shape} [{label}]")
            return
        r2 = result.reshape(-1, len(keys))
        for irow, ref in enumerate(refs):
            bad = mismatch_vs_ref(r2[irow], ref[1])
            if bad:
                i = bad[0]
                out.add(
                    ("value", func, label.split(",")[0]),
                    f"func={func} [{label}] row={irow} group={keys[i]!r}: got {r2[irow][i]!r}, reference (global "
                    f"position semantics) {ref[1][i]!r}; values={rows[irow].tolist()} labels={by.tolist()}",
                )
                return

    e = eager_reduce(arr, [by], kw, engine=engine)
    if e.kind == "error":
        et, fr = e.errsig()
        out.add(("exception", et, fr), f"eager {e.describe()}")
    elif e.ok:
        check(e, "eager")
    else:
        out.label("eager-refusal")
    for plan in case["plans"]:
        pl = f"method={plan['method']},reindex={plan['reindex']},split_every={plan.get('split_every')}"
        c = chunked_reduce(arr, [by], kw, plan, engine=engine)
        if c.kind == "refusal":
            out.label(f"refusal:method={plan['method']}")
            continue
        if c.kind == "error":
            et, fr = c.errsig()
            out.add(("exception", et, fr), f"{c.describe()} [{pl}] func={func}")
            continue
        out.label(f"value:method={plan['method']}", f"nblocks={min(len(plan['chunks'][-1]), 9)}")
        check(c, pl)
    return out
