"""C13 — generated tasks are pure, re-executable and serialisable."""

from __future__ import annotations

import random

import numpy as np
from hypothesis import strategies as st

from ..base import Outcome, run
from ..cmp import arrays_match, tol_for
from ..codec import dec
from ..floxcall import reduce_kwargs, to_dask
from ..sched import ORDERS, OwnedScheduler, array_digest, digest
from . import c02, c10

ID = "C13"
RULE = (
    "Hypothesis: graphs of C02-style reduce cases (all strategies, engines numpy/flox/numbagg/None, all reductions incl. "
    "arg*, first/last, var) and C10-style scan cases, 1-12 blocks, optimised or unoptimised, executed by the harness-owned "
    "scheduler in a drawn order. Oracle per task: digest of every dependency value and of all array data embedded in the "
    "task object itself (label blocks, expected groups) unchanged by execution; a second execution on the "
    "same inputs deep-equals the first; cloudpickle.loads(dumps(task)) executed on the same inputs deep-equals the first. "
    "Whole run: digests of the user's value and label arrays unchanged; after the graph finished, a drawn subset of tasks "
    "is executed again in a drawn order on the retained inputs and must reproduce the recorded outputs ('lost worker'); "
    "final result equals the plain synchronous result; 3 runs under the threaded scheduler (8 workers) agree. "
    "Non-trivial = graph with >=2 tasks sharing an input (a key with >=2 dependents) and >=2 blocks."
)
BUDGET = {"quick": 320, "thorough": 1920}
ASSUMPTIONS = [
    "purity is judged by content digests, not by handing out read-only buffers (numba/numbagg kernels may refuse those)",
    "data races are excluded by the absence of writes to shared inputs, not by observing instruction-level interleavings",
]


@st.composite
def cases(draw, tier="quick"):
    if draw(st.integers(0, 4)) == 0:
        inner = draw(c10.cases(tier))
        kind = "scan"
    else:
        inner = draw(c02.reduce_cases(
            tier, nplans=1, max_n=16, engines=["numpy", "flox", "flox", "numbagg", None, None],
            label_styles=["random", "sorted", "sorted", "runs", "periodic", "blocks", "constant"],
        ))
        kind = "reduce"
    return {
        "kind": kind, "inner": inner, "order": draw(st.sampled_from(ORDERS)), "seed": draw(st.integers(0, 2**16)),
        "optimize": draw(st.booleans()), "reexec": draw(st.integers(1, 6)),
    }  # fmt: skip


def strategy(tier):
    return cases(tier)


def build(case):
    import dask
    from flox.core import groupby_reduce, groupby_scan

    inner = case["inner"]
    arr = dec(inner["arr"])
    by = dec(inner["by"])
    if case["kind"] == "scan":
        chunks = [list(c) for c in inner["chunks"]]
        d = to_dask(arr, chunks)
        r = groupby_scan(d, by, func=inner["func"])
        return arr, by, [r] if dask.is_dask_collection(r) else []
    plan = inner["plans"][0]
    d = to_dask(arr, plan["chunks"])
    byd = by
    if plan.get("by_dask"):
        bc = plan.get("by_chunks") or [plan["chunks"][arr.ndim - by.ndim + ax] for ax in range(by.ndim)]
        byd = to_dask(by, bc)
    kw = reduce_kwargs(inner)
    if plan.get("method") is not None:
        kw["method"] = plan["method"]
    if plan.get("reindex") is not None:
        kw["reindex"] = plan["reindex"]
    r, *g = groupby_reduce(d, byd, engine=inner.get("engine"), **kw)
    return arr, by, [x for x in (r, *g) if dask.is_dask_collection(x)]


def execute(case) -> Outcome:
    import cloudpickle
    import dask

    out = Outcome()
    inner = case["inner"]
    func = inner["func"]
    out.label(f"kind={case['kind']}", f"func={func}", f"order={case['order']}")
    b = run(lambda: build(case))
    if not b.ok:
        out.label(f"build-{b.kind}")
        return out
    arr, by, lazies = b.value
    if not lazies:
        out.label("not-lazy")
        return out
    d_arr, d_by = digest(arr), digest(by)
    rtol, atol = tol_for(func, arr.dtype)
    problems = []

    def on_task(k, node, inputs):
        kname = k[0] if isinstance(k, tuple) else k
        layer = str(kname).rsplit("-", 1)[0]
        before = {d: digest(v) for d, v in inputs.items()}
        dnode = array_digest(node)
        try:
            pk = cloudpickle.dumps(node)
        except Exception as e:  # noqa: BLE001
            pk = None
            problems.append((("unpicklable-task", type(e).__name__), f"task {k!r}: cloudpickle.dumps failed: {e!r}"[:300]))
        res = node(inputs)
        dres = digest(res)
        after = {d: digest(v) for d, v in inputs.items()}
        if before != after:
            bad = [d for d in before if before[d] != after[d]]
            problems.append((("input-mutated", layer), f"task {k!r} modified its input(s) {bad!r}"))
        if array_digest(node) != dnode:
            problems.append((("task-args-mutated", layer), f"task {k!r}: its embedded arguments changed during execution"))
        res2 = node(inputs)
        if digest(res2) != dres:
            problems.append((("not-repeatable", layer), f"task {k!r}: second execution on the same inputs gave a different value"))
        if pk is not None:
            try:
                clone = cloudpickle.loads(pk)
                res3 = clone(inputs)
                if digest(res3) != dres:
                    problems.append((("pickle-changes-behaviour", layer), f"task {k!r}: cloudpickle round trip changed the result"))
            except Exception as e:  # noqa: BLE001
                problems.append((("pickle-roundtrip-fails", type(e).__name__), f"task {k!r}: {e!r}"[:300]))
        return res

    sched = OwnedScheduler(case["order"], seed=case["seed"], on_task=on_task, retain=True)
    r = run(lambda: dask.compute(*lazies, scheduler=sched, optimize_graph=case["optimize"]))
    # the plain run comes AFTER the instrumented one: graphs embed their input blocks, so an impure task in
    # an earlier run would hide its own effect from a later instrumented run
    plain = run(lambda: dask.compute(*lazies, scheduler="sync"))
    if not plain.ok:
        out.label(f"compute-{plain.kind}")  # C02/C19's business
        return out
    if r.kind != "value":
        et, fr = r.errsig()
        out.add(("exception", et, fr), f"owned scheduler run failed although the sync run works: {r.describe()}")
        return out
    nblocks = 1
    if case["kind"] == "reduce":
        for c in inner["plans"][0]["chunks"]:
            nblocks *= len(c)
    else:
        nblocks = len(inner["chunks"][-1])
    out.nontrivial = sched.shared_inputs >= 1 and nblocks >= 2
    out.label(f"ntasks={min(sched.ntasks, 100) // 10 * 10}+", f"shared={min(sched.shared_inputs, 5)}")
    seen = set()
    for sig, msg in problems:
        if sig not in seen:
            seen.add(sig)
            out.add(sig, f"{msg} [func={func} kind={case['kind']}]")
    if digest(arr) != d_arr:
        out.add(("user-array-mutated", "values"), f"the user's value array was modified [func={func}]")
    if digest(by) != d_by:
        out.add(("user-array-mutated", "labels"), f"the user's label array was modified [func={func}]")
    for got, want in zip(r.value, plain.value):
        if not arrays_match(np.asarray(got), np.asarray(want), rtol, atol):
            out.add(("result-differs", "owned-vs-sync"), f"instrumented run differs from sync run: {np.asarray(got).tolist()} vs {np.asarray(want).tolist()}")
    # lost worker: re-execute a subset after the fact
    rng = random.Random(case["seed"])
    keys = sorted(sched.retained, key=repr)
    rng.shuffle(keys)
    for k in keys[: case["reexec"]]:
        node, inputs, res = sched.retained[k]
        again = run(lambda: node(inputs))
        if again.kind != "value" or digest(again.value) != digest(res):
            kname = k[0] if isinstance(k, tuple) else k
            out.add(("late-reexecution-differs", str(kname).rsplit("-", 1)[0]), f"task {k!r} re-executed after completion gave a different value")
            break
    # threaded runs
    for i in range(3):
        t = run(lambda: dask.compute(*lazies, scheduler="threads", num_workers=8))
        if t.kind != "value":
            et, fr = t.errsig()
            out.add(("exception", et, fr), f"threaded run failed: {t.describe()}")
            break
        bad = False
        for got, want in zip(t.value, plain.value):
            if not arrays_match(np.asarray(got), np.asarray(want), rtol, atol):
                bad = True
        if bad:
            out.add(("result-differs", "threads-vs-sync"), f"threaded run {i} differs from the sync run [func={func}]")
            break
    return out
