"""C08 — partial-axis reductions and leading (batch) dimensions are independent slices."""

from __future__ import annotations

import itertools

import numpy as np
from hypothesis import strategies as st

from .. import gen
from ..base import Outcome
from ..cmp import close, groups_match, tol_for
from ..codec import dec, unnum
from ..floxcall import chunked_reduce, eager_reduce, reduce_kwargs
from ..ref import ARG_FUNCS, UNSPEC, ref_1d

ID = "C08"
RULE = (
    "Hypothesis: value arrays of 1-4 dims (sizes 1..4), label arrays of 1-3 dims aligned to the trailing dims, axis = any "
    "non-empty subset of the label dims given in any order and with negative indices, missing labels concentrated in some "
    "slices, groups absent from some slices, a fill_value supplied, eager and chunked along any axis (method None / "
    "map-reduce; cohorts / blockwise only when all label dims are reduced). Oracle: for every index of the kept dims the "
    "result equals the 1-D reference reduction of that slice (absent group -> fill); result shape = batch dims + kept label "
    "dims in original order + group axis last; eager == chunked in shape and values (this also gives the stack law for "
    "batch dims). Non-trivial = a kept label dimension exists and some label is absent from some slice."
)
BUDGET = {"quick": 500, "thorough": 3000}
ASSUMPTIONS = [
    "arg-reductions only with a single reduced axis (position semantics for several axes is not stated) and integer fills",
    "all-NaN groups inside a slice are masked by flox by design when a fill is given: not asserted",
]
FUNCS = ["sum", "nansum", "mean", "nanmean", "max", "nanmax", "min", "nanmin", "count", "prod", "var", "nanstd",
         "argmax", "nanargmin", "nanfirst", "nanlast", "first", "last", "any", "all"]  # fmt: skip


@st.composite
def cases(draw, tier="quick"):
    func = draw(st.sampled_from(FUNCS))
    dt = "|b1" if func in ("any", "all") else draw(st.sampled_from(["<f8", "<f8", "<i8", "<f4", "|i1"]))
    bndim = draw(st.sampled_from([1, 2, 2, 2, 3]))
    nbatch = draw(st.integers(0, 4 - bndim if bndim < 4 else 0))
    nbatch = min(nbatch, 2)
    by_shape = [draw(st.integers(1, 4)) for _ in range(bndim)]
    batch = [draw(st.integers(1, 3)) for _ in range(nbatch)]
    shape = batch + by_shape
    nby = int(np.prod(by_shape))
    ntot = int(np.prod(shape))
    vals = gen.draw_values(draw, ntot, dt, func, nan_p=0.25)
    lab = gen.draw_labels(draw, nby, kinds=["int", "float", "str", "negint", "u1"], max_groups=4)
    labv = lab["spec"]["v"]
    # concentrate missing labels / one group in one slice along the first label dim
    if lab["kind"] == "float" and by_shape[0] > 1 and draw(st.booleans()):
        row = draw(st.integers(0, by_shape[0] - 1))
        per = nby // by_shape[0]
        for i in range(row * per, (row + 1) * per):
            if draw(st.booleans()):
                labv[i] = "nan"
        if all(v == "nan" for v in labv):
            labv[0] = lab["pool"][0]
    # axis subset of the label dims (array axis numbers), any order / sign
    A = len(shape)
    lab_axes = list(range(A - bndim, A))
    k = draw(st.sampled_from(list(range(1, bndim)) * 2 + [bndim])) if bndim > 1 else 1
    if func in ARG_FUNCS or func in ("first", "last", "nanfirst", "nanlast"):
        k = 1 if (func in ARG_FUNCS or draw(st.booleans())) else bndim
    sub = list(draw(st.permutations(lab_axes))[:k])
    style = draw(st.sampled_from(["asc", "asc", "perm", "neg", "mixed", "none"]))
    if style == "asc":
        axis = sorted(sub)
    elif style == "perm":
        axis = sub
    elif style == "neg":
        axis = [a - A for a in sorted(sub)]
    elif style == "mixed":
        axis = [a - A if draw(st.booleans()) else a for a in sub]
    else:
        axis = None if k == bndim else sorted(sub)
    if axis is not None and len(axis) == 1 and draw(st.booleans()):
        axis = axis[0]
    case = {"arr": {"dt": dt, "sh": shape, "v": vals}, "by": {"dt": lab["spec"]["dt"], "sh": by_shape, "v": labv},
            "func": func, "axis": axis, "red": sorted(sub)}  # fmt: skip
    if func in ARG_FUNCS:
        case["fill_value"] = draw(st.sampled_from([-1, 0]))
    else:
        case["fill_value"] = draw(st.sampled_from(["nan", 0, -3])) if dt not in ("|b1",) else draw(st.sampled_from([0, 1]))
        if "u" in dt:
            case["fill_value"] = 0
    present = sorted({v for v in labv if v != "nan"})
    case["expected"] = {"labels": present, "as": draw(st.sampled_from(["array", "index"]))}
    if gen.func_family(func) == "var":
        case["ddof"] = draw(st.sampled_from([None, 1]))
    case["engine"] = draw(st.sampled_from(["numpy", "numpy", "flox", "numbagg", None]))
    chunks = [gen.draw_chunks(draw, s, max_blocks=4) for s in shape]
    full = k == bndim
    methods = [None, "map-reduce"] + (["cohorts"] if full else [])
    plans = []
    for m in draw(st.permutations(methods))[:2]:
        plans.append({"method": m, "reindex": draw(st.sampled_from([None, None, True, False])), "chunks": chunks,
                      "by_dask": False, "by_chunks": None})  # fmt: skip
    case["plans"] = plans
    return case


def strategy(tier):
    return cases(tier)


def slice_reference(arr, by, case):
    """-> keys, expected array (object with UNSPEC), flags"""
    func = case["func"]
    A, B = arr.ndim, by.ndim
    red = case["red"]
    kept = [a for a in range(A) if a not in red]
    requested = [unnum(x) for x in case["expected"]["labels"]]
    fill = unnum(case["fill_value"])
    keys = sorted(requested)
    kept_shape = [arr.shape[a] for a in kept]
    out = np.empty(kept_shape + [len(keys)], dtype=object)
    absent_somewhere = False
    for idx in itertools.product(*[range(s) for s in kept_shape]):
        sl = [slice(None)] * A
        for a, i in zip(kept, idx):
            sl[a] = i
        v = arr[tuple(sl)].reshape(-1)
        lsl = []
        for a in range(A - B, A):
            lsl.append(idx[kept.index(a)] if a in kept else slice(None))
        lab_slice = by[tuple(lsl)].reshape(-1)
        _, res, nmem, nvalid = ref_1d(v, lab_slice, func, requested=requested, sort=True, ddof=case.get("ddof") or 0)
        for gi, (r, nm, nv) in enumerate(zip(res, nmem, nvalid)):
            if nm == 0:
                out[idx + (gi,)] = fill
                absent_somewhere = True
            elif nv == 0:
                out[idx + (gi,)] = UNSPEC
            else:
                out[idx + (gi,)] = r
    kept_label_dim = any(a >= A - B for a in kept)
    return keys, out, kept_label_dim and absent_somewhere


def execute(case) -> Outcome:
    out = Outcome()
    arr = dec(case["arr"])
    by = dec(case["by"])
    func = case["func"]
    kw = reduce_kwargs(case)
    engine = case.get("engine")
    keys, want, nt = slice_reference(arr, by, case)
    out.nontrivial = nt
    rtol, atol = tol_for(func, arr.dtype)
    ax = case["axis"]
    axstyle = "none" if ax is None else ("int" if isinstance(ax, int) else ("sorted-nonneg" if list(ax) == sorted(ax) and all(a >= 0 for a in ax) else "permuted-or-negative"))
    out.label(f"func={func}", f"ndim={arr.ndim}", f"byndim={by.ndim}", f"nred={len(case['red'])}", f"axis={axstyle}")

    def check(res, where):
        result, (groups,) = res.value
        wk = where.split(":")[0]
        if not groups_match(groups, np.asarray(keys)):
            out.add(("groups", wk), f"[{where}] groups {groups!r} != {keys!r}")
            return None
        if result.shape != want.shape:
            out.add(("shape", wk, f"axis={axstyle}"), f"[{where}] func={func} axis={ax}: result shape {result.shape} != batch+kept+groups {want.shape} "
                    f"(array {arr.shape}, labels {by.shape})")  # fmt: skip
            return None
        for idx in itertools.product(*[range(s) for s in want.shape]):
            w = want[idx]
            if w is UNSPEC:
                continue
            if not bool(np.all(close(np.asarray(result[idx]), np.asarray(w, dtype=float) if not isinstance(w, (np.ndarray,)) else w, rtol, atol))):
                tag = "int-nanfirst/nanlast" if func in ("nanfirst", "nanlast") and arr.dtype.kind in "iub" else "-"
                out.add(("value", wk, f"axis={axstyle}", tag), f"[{where}] func={func} axis={ax} (array {arr.shape}, labels {by.shape}): result{list(idx)} = "
                        f"{result[idx]!r}, slice-wise reference {w!r}")  # fmt: skip
                return None
        return result

    e = eager_reduce(arr, [by], kw, engine=engine)
    if e.kind == "error":
        et, fr = e.errsig()
        out.add(("exception", et, fr, "eager"), f"eager {e.describe()} func={func} axis={ax} fill={case['fill_value']}")
    elif e.ok:
        check(e, "eager")
    else:
        out.label("eager-refusal")
    for plan in case["plans"]:
        pl = f"chunked:method={plan['method']},reindex={plan['reindex']}"
        c = chunked_reduce(arr, [by], kw, plan, engine=engine)
        if c.kind == "refusal":
            out.label(f"refusal:{plan['method']}")
            if e.ok and plan["method"] in (None, "map-reduce") and plan["reindex"] is None and "dask" in str(c.exc).lower() + type(c.exc).__module__:
                pass
            continue
        if c.kind == "error":
            et, fr = c.errsig()
            out.add(("exception", et, fr, f"axis={axstyle}"), f"{c.describe()} [{pl}] func={func} axis={ax} chunks={plan['chunks']}")
            continue
        out.label(f"value:{plan['method']}")
        check(c, pl)
    return out
