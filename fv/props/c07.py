"""C07 — multi-variable grouping = tuple key; binning = pandas.cut."""

from __future__ import annotations

import itertools

import numpy as np
from hypothesis import strategies as st

from .. import gen
from ..base import Outcome, run
from ..cmp import close, tol_for
from ..codec import dec, unnum
from ..ref import UNSPEC, reduce_members

ID = "C07"
RULE = (
    "Hypothesis: 1-3 groupers, each categorical (int / str / float with NaN) or binned (contiguous edges given as array + "
    "isbin=True, or as IntervalIndex with closed in {left, right}); grouper shapes equal or with size-1 axes that broadcast "
    "jointly to the array's trailing shape; binned values drawn from {edges, nextafter(edge, +-inf), midpoints, below first, "
    "above last, NaN, +-inf}; 0-1 batch dims; eager and chunked (map-reduce / None / cohorts), numpy or dask groupers; "
    "expected_groups and a fill always supplied. Data = provenance weights 3**i with func=sum in half of the cases (the "
    "result names exactly which elements entered each cell), random reductions otherwise. Oracle: result shape == batch + "
    "one trailing axis per grouper; cell (i,j,...) == NumPy reduction of the elements whose label tuple is (g_i,h_j,...), "
    "bin membership from pandas.cut(values, IntervalIndex).codes, elements with any missing / unrequested / out-of-bin "
    "label in no cell; empty cells == fill; returned labels == requested labels / IntervalIndex. Non-trivial = >=2 "
    "groupers, or a binned value exactly on an edge or outside all bins."
)
BUDGET = {"quick": 500, "thorough": 3000}
ASSUMPTIONS = [
    "datetime labels with bins are excluded (np.digitize on datetimes fails in this environment already in the baseline suite)",
    "cells whose members are all NaN are masked by flox by design when a fill is given: not asserted",
]


@st.composite
def cases(draw, tier="quick"):
    ngr = draw(st.sampled_from([1, 2, 2, 2, 3]))
    ndim = draw(st.sampled_from([1, 1, 2]))
    shape = [draw(st.integers(1, 5)) for _ in range(ndim)]
    if ndim == 1:
        shape = [draw(st.integers(2, 12))]
    n = int(np.prod(shape))
    batch = draw(st.sampled_from([[], [], [2]]))
    prov = draw(st.booleans()) and n * (2 if batch else 1) <= 30
    if prov:
        func, dt = "sum", "<i8"
        vals = [3**i for i in range(n * (2 if batch else 1))]
    else:
        func = draw(st.sampled_from(["sum", "count", "nanmax", "mean", "min", "nansum", "nanmean", "max"]))
        dt = draw(st.sampled_from(["<f8", "<i8", "<f4"]))
        vals = gen.draw_values(draw, n * (2 if batch else 1), dt, func)
    groupers, bys = [], []
    # which grouper covers which axes at full length (joint broadcast must equal `shape`)
    for gi in range(ngr):
        gshape = list(shape)
        if ndim == 2 and ngr >= 2 and draw(st.booleans()):
            ax = draw(st.integers(0, 1))
            gshape[ax] = 1
        bys.append(gshape)
    if ndim == 2:
        for ax in range(2):
            if all(g[ax] == 1 for g in bys) and shape[ax] != 1:
                bys[draw(st.integers(0, ngr - 1))][ax] = shape[ax]
    byspecs = []
    for gi in range(ngr):
        gn = int(np.prod(bys[gi]))
        kind = draw(st.sampled_from(["cat", "cat", "bins"]))
        if kind == "cat":
            lab = gen.draw_labels(draw, gn, kinds=["int", "str", "float", "u1", "i2"], max_groups=3)
            present = sorted({v for v in lab["spec"]["v"] if v != "nan"})
            extra = {"int": [20], "str": ["z"], "float": [99.5], "u1": [77], "i2": [-77]}[lab["kind"]]
            labels = list(present)
            if draw(st.booleans()) and len(labels) > 1:
                labels = labels[:-1]  # one present label is unrequested
            if draw(st.booleans()):
                labels = sorted(labels + extra)
            groupers.append({"kind": "cat", "labels": labels})
            byspecs.append({"dt": lab["spec"]["dt"], "sh": bys[gi], "v": lab["spec"]["v"]})
        else:
            nedges = draw(st.integers(2, 4))
            start = draw(st.sampled_from([-2.0, 0.0, 1.0]))
            widths = [draw(st.sampled_from([0.5, 1.0, 2.0])) for _ in range(nedges - 1)]
            edges = [start]
            for w in widths:
                edges.append(edges[-1] + w)
            pool = []
            for e in edges:
                pool += [e, float(np.nextafter(e, np.inf)), float(np.nextafter(e, -np.inf))]
            pool += [(a + b) / 2 for a, b in zip(edges[:-1], edges[1:])]
            pool += [edges[0] - 1.0, edges[-1] + 1.0, "nan", "inf", "-inf"]
            v = draw(st.lists(st.sampled_from(pool), min_size=gn, max_size=gn))
            groupers.append({"kind": "bins", "edges": edges, "closed": draw(st.sampled_from(["right", "right", "left"])),
                             "as": draw(st.sampled_from(["interval", "edges"]))})  # fmt: skip
            if groupers[-1]["as"] == "edges":
                groupers[-1]["closed"] = "right"
            byspecs.append({"dt": "<f8", "sh": bys[gi], "v": v})
    case = {"arr": {"dt": dt, "sh": batch + shape, "v": vals}, "bys": byspecs, "groupers": groupers, "func": func}
    case["fill_value"] = draw(st.sampled_from(["nan", 0, -3])) if dt != "<u8" else 0
    case["engine"] = draw(st.sampled_from(["numpy", "numpy", "flox", "numbagg", None]))
    chunks = [gen.draw_chunks(draw, s, max_blocks=4) for s in batch + shape]
    plans = []
    for m in draw(st.permutations([None, "map-reduce", "cohorts"]))[:2]:
        by_dask = draw(st.integers(0, 3)) == 0 and m != "cohorts"
        plans.append({"method": m, "reindex": draw(st.sampled_from([None, None, True, False])), "chunks": chunks, "by_dask": by_dask})
    case["plans"] = plans
    return case


def strategy(tier):
    return cases(tier)


def grouper_objects(case):
    import pandas as pd

    expected, isbin = [], []
    for g, b in zip(case["groupers"], case["bys"]):
        if g["kind"] == "cat":
            labs = [unnum(x) for x in g["labels"]]
            if b["dt"] == "U":
                expected.append(np.array(labs, dtype=str))
            elif "f" in b["dt"]:
                expected.append(np.array(labs, dtype=np.float64))
            else:
                expected.append(np.array(labs, dtype=np.int64))
            isbin.append(False)
        else:
            if g["as"] == "interval":
                expected.append(pd.IntervalIndex.from_breaks(g["edges"], closed=g["closed"]))
                isbin.append(False)
            else:
                expected.append(np.array(g["edges"], dtype=np.float64))
                isbin.append(True)
    return tuple(expected), tuple(isbin)


def codes_for(g, byarr):
    """per-element slot index (-1 = dropped) computed independently of flox"""
    import pandas as pd

    flat = byarr.reshape(-1)
    if g["kind"] == "cat":
        labs = [unnum(x) for x in g["labels"]]
        labs = sorted(labs)
        lookup = {(str(x) if isinstance(x, str) else float(x)): i for i, x in enumerate(labs)}
        out = []
        for x in flat.tolist():
            if isinstance(x, float) and np.isnan(x):
                out.append(-1)
            else:
                out.append(lookup.get(str(x) if isinstance(x, str) else float(x), -1))
        return np.array(out).reshape(byarr.shape), len(labs)
    ii = pd.IntervalIndex.from_breaks(g["edges"], closed=g["closed"])
    codes = pd.cut(flat, ii).codes
    return np.asarray(codes, dtype=np.int64).reshape(byarr.shape), len(ii)


def reference(case, arr, bys):
    func = case["func"]
    fill = unnum(case["fill_value"])
    nb = arr.ndim - max(b.ndim for b in bys)
    tshape = arr.shape[nb:]
    codes, sizes = [], []
    edge_or_outside = False
    for g, b in zip(case["groupers"], bys):
        c, s = codes_for(g, b)
        codes.append(np.broadcast_to(c, tshape).reshape(-1))
        sizes.append(s)
        if g["kind"] == "bins":
            fv = b.reshape(-1)
            if np.isin(fv, g["edges"]).any() or (c.reshape(-1) == -1).any():
                edge_or_outside = True
    rows = arr.reshape(arr.shape[:nb] + (-1,)).reshape(-1, int(np.prod(tshape)))
    want = np.empty((rows.shape[0],) + tuple(sizes), dtype=object)
    dropped = np.zeros(rows.shape[1], dtype=bool)
    for c in codes:
        dropped |= c == -1
    for cell in itertools.product(*[range(s) for s in sizes]):
        sel = ~dropped
        for c, i in zip(codes, cell):
            sel = sel & (c == i)
        idx = np.nonzero(sel)[0]
        for ri in range(rows.shape[0]):
            if idx.size == 0:
                want[(ri,) + cell] = fill
            else:
                m = rows[ri, idx]
                nvalid = int((~np.isnan(m)).sum()) if m.dtype.kind == "f" else m.size
                want[(ri,) + cell] = UNSPEC if nvalid == 0 else reduce_members(m, idx, func)
    want = want.reshape(arr.shape[:nb] + tuple(sizes))
    return want, sizes, edge_or_outside


def call(case, arr, bys, plan=None):
    import dask
    import dask.array as da
    from flox.core import groupby_reduce

    expected, isbin = grouper_objects(case)
    kw = dict(func=case["func"], expected_groups=expected, isbin=isbin, fill_value=unnum(case["fill_value"]), engine=case.get("engine"))

    def go():
        if plan is None:
            res, *groups = groupby_reduce(arr, *bys, **kw)
            return np.asarray(res), groups
        d = da.from_array(arr, chunks=tuple(tuple(c) for c in plan["chunks"]))
        dbys = list(bys)
        if plan.get("by_dask"):
            nb = arr.ndim - bys[0].ndim
            dbys = [da.from_array(b, chunks=tuple(tuple(c) if b.shape[i] != 1 else (1,) for i, c in enumerate(plan["chunks"][nb:]))) for b in bys]
        extra = {}
        if plan.get("method") is not None:
            extra["method"] = plan["method"]
        if plan.get("reindex") is not None:
            extra["reindex"] = plan["reindex"]
        res, *groups = groupby_reduce(d, *dbys, **kw, **extra)
        if not dask.is_dask_collection(res):
            return ("not-lazy", np.asarray(res)), groups
        with dask.config.set(scheduler="sync"):
            return np.asarray(res.compute()), groups

    return run(go)


def labels_ok(case, groups):
    import pandas as pd

    if len(groups) != len(case["groupers"]):
        return f"{len(groups)} label arrays for {len(case['groupers'])} groupers"
    for g, got in zip(case["groupers"], groups):
        got = np.asarray(got)
        if g["kind"] == "cat":
            want = sorted(unnum(x) for x in g["labels"])
            if got.shape != (len(want),) or [str(a) for a in got.tolist()] != [str(type(got.tolist()[0])(w)) if False else str(w) for w in want]:
                try:
                    if got.shape == (len(want),) and all(float(a) == float(w) for a, w in zip(got.tolist(), want)):
                        continue
                except (TypeError, ValueError):
                    pass
                return f"returned labels {got.tolist()} != requested {want}"
        else:
            ii = pd.IntervalIndex.from_breaks(g["edges"], closed=g["closed"])
            try:
                gi = pd.IntervalIndex(list(got))
            except Exception:  # noqa: BLE001
                return f"returned bin labels are not intervals: {got!r}"
            if not gi.equals(ii):
                return f"returned bins {gi} != requested {ii}"
    return None


def execute(case) -> Outcome:
    out = Outcome()
    arr = dec(case["arr"])
    bys = [dec(b) for b in case["bys"]]
    func = case["func"]
    want, sizes, edgy = reference(case, arr, bys)
    out.nontrivial = len(bys) >= 2 or edgy
    kinds = "+".join(g["kind"] for g in case["groupers"])
    out.label(f"func={func}", f"ngroupers={len(bys)}", f"kinds={kinds}", f"broadcast={any(1 in b.shape and b.size > 1 or b.shape != bys[0].shape for b in bys)}")
    rtol, atol = tol_for(func, arr.dtype)

    def check(res, where):
        result, groups = res.value
        wk = where.split(":")[0]
        msg = labels_ok(case, groups)
        if msg:
            out.add(("labels", wk, kinds), f"[{where}] {msg}")
            return
        if result.shape != want.shape:
            out.add(("shape", wk), f"[{where}] result shape {result.shape} != batch + one axis per grouper {want.shape}")
            return
        for idx in itertools.product(*[range(s) for s in want.shape]):
            w = want[idx]
            if w is UNSPEC:
                continue
            if not bool(np.all(close(np.asarray(result[idx]), np.asarray(w, dtype=float), rtol, atol))):
                closed = [g.get("closed") for g in case["groupers"]]
                out.add(("cell", wk, kinds), f"[{where}] func={func} cell {list(idx)} = {result[idx]!r}, tuple-key reference {w!r} (groupers {kinds}, "
                        f"closed={closed})")  # fmt: skip
                return

    e = call(case, arr, bys)
    if e.kind == "error":
        et, fr = e.errsig()
        out.add(("exception", et, fr), f"eager {e.describe()} func={func} groupers={kinds}")
    elif e.ok:
        check(e, "eager")
    else:
        out.label("eager-refusal")
    for plan in case["plans"]:
        pl = f"chunked:method={plan['method']},reindex={plan['reindex']},bydask={plan['by_dask']}"
        c = call(case, arr, bys, plan)
        if c.kind == "refusal":
            out.label(f"refusal:{plan['method']}")
            continue
        if c.kind == "error":
            et, fr = c.errsig()
            out.add(("exception", et, fr), f"{c.describe()} [{pl}] func={func} groupers={kinds}")
            continue
        out.label(f"value:{plan['method']}", f"bydask={plan['by_dask']}")
        if isinstance(c.value[0], tuple):
            out.add(("not-lazy", f"method={plan['method']}"), f"[{pl}] groupby_reduce on a dask array returned a NumPy array (property C12 wording: lazy result); func={func} groupers={kinds}")
            c.value = (c.value[0][1], c.value[1])
        check(c, pl)
    return out
