"""C18 — grouped order statistics match NumPy's linear-interpolation quantiles."""

from __future__ import annotations

import itertools

import numpy as np
from hypothesis import strategies as st

from .. import gen
from ..base import Outcome
from ..cmp import close, groups_match
from ..codec import dec, unnum
from ..floxcall import chunked_reduce, eager_reduce, reduce_kwargs
from ..ref import group_positions

ID = "C18"
RULE = (
    "Hypothesis: float64/float32/int arrays of finite values with many ties (and NaNs for floats), group sizes 1..8 incl. "
    "all-NaN and single-member groups, unsorted interleaved labels, q scalar or vector drawn from {0,1,.5,.25,1/3,.9,.1,.75} "
    "in any order incl. repeats, funcs median/nanmedian/quantile/nanquantile, engines flox/numpy/None, 0-2 leading batch "
    "dims; eager, and chunked with (i) chunks only on batch axes, (ii) blocks aligned to groups (must compute, method None "
    "or blockwise), (iii) groups straddling blocks (method None/map-reduce/cohorts must refuse). Exhaustive small scope: "
    "group size 1..5 (thorough 6) x every NaN placement count x q grid {0,.1,...,1}. Oracle: numpy.quantile / nanquantile "
    "(method='linear') per group and q, rtol=atol=1e-12 (float32 1e-6); vector q adds one LEADING axis in the given order, "
    "scalar q none; refusals must be ValueError/NotImplementedError. Non-trivial = a group of size>=2 with non-integral "
    "virtual index, or a NaN inside a group."
)
BUDGET = {"quick": 1000, "thorough": 6000}
ASSUMPTIONS = ["infinities excluded (NumPy's own interpolation is ill-defined there)", "vector q (of any length) with engine='numpy' is treated as the documented refusal (ValueError)", "inputs whose labels are all missing (no group at all) are skipped: the property quantifies over groups of size >= 1"]
QS = [0.0, 1.0, 0.5, 0.25, 1 / 3, 0.9, 0.1, 0.75]
VALS = [-5.0, -2.0, -2.0, -0.5, 0.0, 0.0, 1.0, 1.5, 3.0, 3.0, 7.0]


@st.composite
def cases(draw, tier="quick"):
    func = draw(st.sampled_from(["median", "nanmedian", "quantile", "nanquantile", "nanquantile"]))
    dt = draw(st.sampled_from(["<f8", "<f8", "<f8", "<f4", "<i8", "|i1"]))
    layout = draw(st.sampled_from(["eager", "eager", "batchchunk", "aligned", "straddle"]))
    n = draw(st.integers(1, 20))
    batch = draw(st.sampled_from([[], [], [2], [2, 2]])) if layout != "batchchunk" else draw(st.sampled_from([[2], [3], [2, 2]]))
    nb = int(np.prod(batch)) if batch else 1
    alpha = VALS if "f" in dt else [-5, -2, -2, 0, 0, 1, 3, 3, 7]
    vals = draw(st.lists(st.sampled_from(alpha), min_size=n * nb, max_size=n * nb))
    if "f" in dt and "nan" in func or ("f" in dt and draw(st.integers(0, 3)) == 0):
        k = draw(st.integers(0, max(1, (n * nb) // 3)))
        for i in draw(st.lists(st.integers(0, n * nb - 1), min_size=k, max_size=k)):
            vals[i] = "nan"
    if layout in ("aligned", "straddle"):
        lab = gen.draw_labels(draw, n, kinds=["int", "float", "str"], max_groups=5, styles=["runs", "sorted"], missing=False)
        # make runs unique (sequential) for 'aligned'
        v = lab["spec"]["v"]
        seen, prev, out, pool = set(), object(), [], list(lab["pool"])
        # an unbounded supply of fresh labels (a bounded one repeated itself: harness bug found by `vp check`, seed 1)
        if lab["kind"] == "int":
            extra = iter(range(100, 100 + n + 1))
        elif lab["kind"] == "float":
            extra = iter([100.5 + k for k in range(n + 1)])
        else:
            extra = iter([f"p{k:02d}" for k in range(n + 1)])
        cur = None
        for x in v:
            if x != prev:
                cur = x if x not in seen else next(extra)
                seen.add(cur)
                prev = x
            out.append(cur)
        lab["spec"]["v"] = out
    else:
        lab = gen.draw_labels(draw, n, kinds=["int", "float", "str"], max_groups=5)
    case = {"arr": {"dt": dt, "sh": batch + [n], "v": vals}, "by": lab["spec"], "func": func, "layout": layout}
    if "quantile" in func:
        if draw(st.booleans()):
            case["q"] = draw(st.sampled_from(QS))
        else:
            case["q"] = draw(st.lists(st.sampled_from(QS), min_size=1, max_size=4))
            case["q_as"] = draw(st.sampled_from(["list", "tuple", "ndarray"]))
    case["engine"] = draw(st.sampled_from(["flox", "flox", "numpy", None, None]))
    # chunking
    labs = lab["spec"]["v"]
    if layout == "batchchunk":
        chunks = [gen.draw_chunks(draw, b, max_blocks=3, styles=["ones", "arbitrary", "uniform"]) for b in batch] + [[n]]
        case["plans"] = [{"method": draw(st.sampled_from([None, "blockwise"])), "reindex": None, "chunks": chunks, "by_dask": False, "by_chunks": None}]
    elif layout in ("aligned", "straddle"):
        borders = [i for i in range(1, n) if labs[i] != labs[i - 1]]
        inner = [i for i in range(1, n) if labs[i] == labs[i - 1]]
        if layout == "aligned":
            cuts = sorted(set(draw(st.lists(st.sampled_from(borders), max_size=4)))) if borders else []
        else:
            if not inner:
                cuts = []
                case["layout"] = "aligned"
            else:
                cuts = sorted(set(draw(st.lists(st.sampled_from(borders + inner), max_size=3)) + [draw(st.sampled_from(inner))]))
        bounds = [0] + cuts + [n]
        ch = [b - a for a, b in zip(bounds[:-1], bounds[1:])]
        chunks = [[b] for b in batch] + [ch]
        if case["layout"] == "aligned":
            methods = [None, "blockwise"]
        else:
            methods = [None, "map-reduce", "cohorts"]
        case["plans"] = [{"method": m, "reindex": None, "chunks": chunks, "by_dask": False, "by_chunks": None} for m in methods]
    else:
        case["plans"] = []
    return case


def strategy(tier):
    return cases(tier)


def enumerate_cases(tier):
    maxsize = 5 if tier == "quick" else 6
    qgrid = [round(0.1 * i, 1) for i in range(11)]
    base = [3.0, -1.0, 4.0, 1.0, -5.0, 9.0]
    for size in range(1, maxsize + 1):
        for nnan in range(0, size + 1):
            for nanpos in itertools.combinations(range(size), nnan):
                vals = [("nan" if i in nanpos else base[i]) for i in range(size)]
                # second group interleaved (size 2) so that the sort inside flox matters
                arr = []
                by = []
                for i, v in enumerate(vals):
                    arr.append(v)
                    by.append(1)
                    if i < 2:
                        arr.append(float(10 + i))
                        by.append(0)
                for func in ("nanquantile", "quantile"):
                    yield {"arr": {"dt": "<f8", "sh": [len(arr)], "v": arr}, "by": {"dt": "<i8", "sh": [len(by)], "v": by},
                           "func": func, "q": qgrid, "engine": "flox", "layout": "eager", "plans": []}  # fmt: skip
                for func in ("nanmedian", "median"):
                    yield {"arr": {"dt": "<f8", "sh": [len(arr)], "v": arr}, "by": {"dt": "<i8", "sh": [len(by)], "v": by},
                           "func": func, "engine": None, "layout": "eager", "plans": []}  # fmt: skip


def exhaustive_note(tier):
    return f"group sizes 1..{5 if tier == 'quick' else 6} x every subset of positions being NaN x q in {{0,0.1,...,1}} (vector), with an interleaved second group"


def reference(arr, by, func, q):
    """-> keys, array of shape (nq?,) + batch + (ngroups,) as float64"""
    pos = group_positions(by)
    keys = sorted(pos)
    rows = arr.reshape(-1, arr.shape[-1]).astype(np.float64)
    qq = 0.5 if "median" in func else q
    scalar = np.ndim(qq) == 0
    qv = np.atleast_1d(np.asarray(qq, dtype=np.float64))
    out = np.full((len(qv), rows.shape[0], len(keys)), np.nan)
    nontrivial = False
    import warnings

    with warnings.catch_warnings(), np.errstate(all="ignore"):
        warnings.simplefilter("ignore")
        for gi, k in enumerate(keys):
            for ri in range(rows.shape[0]):
                m = rows[ri, pos[k]]
                valid = m[~np.isnan(m)]
                if np.isnan(m).any():
                    nontrivial = True
                if func.startswith("nan"):
                    if valid.size:
                        out[:, ri, gi] = np.nanquantile(m, qv, method="linear")
                        if valid.size >= 2 and any(abs((valid.size - 1) * x - round((valid.size - 1) * x)) > 1e-9 for x in qv):
                            nontrivial = True
                else:
                    out[:, ri, gi] = np.quantile(m, qv, method="linear")
                    if m.size >= 2 and any(abs((m.size - 1) * x - round((m.size - 1) * x)) > 1e-9 for x in qv):
                        nontrivial = True
    out = out.reshape((len(qv),) + arr.shape[:-1] + (len(keys),))
    if scalar:
        out = out[0]
    return keys, out, nontrivial


def execute(case) -> Outcome:
    out = Outcome()
    arr = dec(case["arr"])
    by = dec(case["by"])
    func = case["func"]
    kw = reduce_kwargs(case)
    if case.get("q_as") == "tuple":
        kw["finalize_kwargs"]["q"] = tuple(kw["finalize_kwargs"]["q"])
    elif case.get("q_as") == "ndarray":
        kw["finalize_kwargs"]["q"] = np.asarray(kw["finalize_kwargs"]["q"], dtype=float)
    engine = case.get("engine")
    q = None
    if case.get("q") is not None:
        q = [unnum(x) for x in case["q"]] if isinstance(case["q"], list) else unnum(case["q"])
    keys, want, nt = reference(arr, by, func, q)
    out.nontrivial = nt
    if not keys:
        out.label("no-groups")  # every label missing: the property quantifies over groups of size >= 1
        out.nontrivial = False
        return out
    tol = (1e-6, 1e-6) if arr.dtype == np.float32 else (1e-12, 1e-12)
    out.label(f"func={func}", f"engine={engine}", f"layout={case['layout']}", f"q={'vector' if isinstance(q, list) else 'scalar' if q is not None else 'median'}")

    def check(res, where):
        result, (groups,) = res.value
        if not groups_match(groups, np.asarray(keys)):
            out.add(("groups", where.split(":")[0]), f"[{where}] groups {groups!r} != {keys!r}")
            return
        if result.shape != want.shape:
            out.add(("shape", where.split(":")[0], "vector-q" if isinstance(q, list) else "scalar-q"),
                    f"[{where}] func={func} q={q}: shape {result.shape} != expected {want.shape} (vector q adds one leading axis)")  # fmt: skip
            return
        ok = close(result.astype(np.float64), want, *tol)
        if not ok.all():
            idx = tuple(int(i) for i in np.argwhere(~ok)[0])
            g = keys[idx[-1]]
            members = arr.reshape(-1, arr.shape[-1])[0, group_positions(by)[g]].tolist()
            out.add(("value", func, where.split(":")[0], f"engine={engine}"),
                    f"[{where}] func={func} q={q} engine={engine} group {g!r} index {idx}: got {result[idx]!r}, numpy "
                    f"{want[idx]!r}; (first-row) members={members}")  # fmt: skip

    e = eager_reduce(arr, [by], kw, engine=engine)
    if e.kind == "error":
        et, fr = e.errsig()
        out.add(("exception", et, fr), f"eager {e.describe()} func={func} engine={engine} q={q} dtype={arr.dtype}")
    elif e.kind == "refusal":
        out.label("eager-refusal")
        if not (engine == "numpy" and isinstance(q, list)):
            out.add(("unexpected-refusal", "eager", func, f"engine={engine}"), f"eager call refused: {e.describe()} q={q}")
    else:
        check(e, "eager")
    for plan in case.get("plans", []):
        pl = f"chunked:{case['layout']},method={plan['method']}"
        c = chunked_reduce(arr, [by], kw, plan, engine=engine)
        must_refuse = case["layout"] == "straddle"
        if c.kind == "error":
            et, fr = c.errsig()
            out.add(("exception", et, fr), f"[{pl}] {c.describe()} func={func} engine={engine}")
        elif c.kind == "refusal":
            out.label(f"refusal:{case['layout']}")
            if not must_refuse and not (engine == "numpy" and isinstance(q, list)):
                out.add(("unexpected-refusal", case["layout"], f"method={plan['method']}"), f"[{pl}] refused although every group lies within one block: "
                        f"{c.describe()} chunks={plan['chunks']} labels={by.tolist()}")  # fmt: skip
        else:
            if must_refuse:
                out.add(("not-refused", f"method={plan['method']}"), f"[{pl}] func={func}: computed although groups straddle blocks: chunks="
                        f"{plan['chunks']} labels={by.tolist()} -> {c.value[0].tolist()}")  # fmt: skip
            else:
                out.label(f"value:{case['layout']}")
                check(c, pl)
    return out
