"""C03 — result independent of reduction-tree shape, task order and scheduler."""

from __future__ import annotations

import numpy as np
from hypothesis import strategies as st

from .. import gen
from ..base import Outcome, run
from ..cmp import arrays_match, close, tol_for
from ..codec import dec
from ..floxcall import reduce_kwargs, to_dask
from ..ref import ARG_FUNCS
from ..sched import ORDERS, OwnedScheduler
from .c02 import nan_group_mask

ID = "C03"
RULE = (
    "Hypothesis: reduce cases (all reductions with a combine stage; 1-D labels, optional batch dim) with 3..16 blocks "
    "(one case in eight: 17-80 size-1 blocks) along the reduced axis, method in {map-reduce, cohorts, None}, reindex in {None, False, True}, optional expected_groups + fill + min_count, and scan cases (nancumsum/ffill/bfill) with 2..12 "
    "blocks (arg-reductions compared on NaN-free groups only, nanarg* on not-all-NaN groups: the domain on which they are specified). Systematic sweep per case: split_every = every value 2..nblocks (sampled to <=6 values incl. 2, 3 and "
    "nblocks when nblocks > 7), each graph computed under the synchronous scheduler, the threaded scheduler (4 workers) "
    "and the harness-owned scheduler in orders {seeded random x2, min-key, max-key, depth-first, breadth-first}, optimised "
    "and unoptimised graph. Oracle (metamorphic): every run equals the baseline run (split_every = nblocks, synchronous); "
    "scans: every run equals the eager scan. Exact on dyadic alphabets (var/std 1e-12). Non-trivial = some run with tree "
    "depth >= 2 (reductions) / >= 3 blocks (scans)."
)
BUDGET = {"quick": 140, "thorough": 900}
ASSUMPTIONS = [
    "true preemptive races are not explored; freedom from them is reduced to task purity (C13)",
    "split_every is set through dask.config around graph construction (both dask's and flox's tree builders read it there)",
]

FUNCS = [
    "sum", "nansum", "prod", "nanprod", "mean", "nanmean", "var", "nanvar", "std", "nanstd",
    "max", "nanmax", "min", "nanmin", "argmax", "nanargmax", "argmin", "nanargmin",
    "nanfirst", "nanlast", "count", "any", "all",
]  # fmt: skip
SCANS = ["nancumsum", "ffill", "bfill"]


@st.composite
def cases(draw, tier="quick"):
    is_scan = draw(st.integers(0, 4)) == 0
    func = draw(st.sampled_from(SCANS if is_scan else FUNCS))
    if func in ("any", "all"):
        dt = "|b1"
    else:
        dt = draw(st.sampled_from(["<f8", "<f8", "<f8", "<f4", "<i8", "|i1"]))
    nblocks = draw(st.integers(2 if is_scan else 3, 12 if is_scan else 16))
    if draw(st.integers(0, 7)) == 0:
        # rare: many blocks (deep trees with the default split_every, block counts just above its powers)
        nblocks = draw(st.sampled_from([17, 18, 19, 20, 33, 64, 65, 66, 80])) if not is_scan else draw(st.integers(13, 40))
    sizes = [draw(st.sampled_from([1, 1, 2, 2, 3])) if nblocks <= 16 else 1 for _ in range(nblocks)]
    n = sum(sizes)
    batch = draw(st.sampled_from([[], [], [2]]))
    nb = 2 if batch else 1
    vals = gen.draw_values(draw, n * nb, dt, "sum" if is_scan else func, nan_p=0.3)
    lab = gen.draw_labels(draw, n, kinds=["int", "int", "float", "str", "u1"], max_groups=5, missing=not (func == "nancumsum"))
    case = {
        "scan": is_scan, "arr": {"dt": dt, "sh": batch + [n], "v": vals}, "by": lab["spec"], "func": func,
        "chunks": [[b] for b in batch] + [sizes],
        "method": None if is_scan else draw(st.sampled_from(["map-reduce", "map-reduce", "cohorts", None])),
        "engine": None if is_scan else draw(st.sampled_from(["numpy", "numpy", "flox", "numbagg", None])),
        "sched_seed": draw(st.integers(0, 2**16)),
    }  # fmt: skip
    if not is_scan and gen.func_family(func) == "var":
        case["ddof"] = draw(st.sampled_from([None, 1]))
    if not is_scan:
        # the combine path depends on where intermediates are reindexed and on the count-based masking
        case["reindex"] = draw(st.sampled_from([None, None, False, True]))
        present = sorted({v for v in lab["spec"]["v"] if v != "nan"})
        if present and draw(st.integers(0, 2)) == 0 and "arg" not in func:
            extra = {"int": 77, "float": 99.5, "str": "zz", "u1": 77}[lab["kind"]]
            case["expected"] = {"labels": present + [extra], "as": "array"}
            case["fill_value"] = draw(st.sampled_from(["nan", 0]))
            case["min_count"] = draw(st.sampled_from([None, None, 1, 2]))
    return case


def strategy(tier):
    return cases(tier)


def split_values(nblocks):
    if nblocks <= 7:
        return list(range(2, nblocks + 1))
    if nblocks > 16:
        return sorted({2, 4, 8, nblocks})
    return sorted({2, 3, 4, nblocks // 2, nblocks - 1, nblocks})


def tree_depth(nblocks, k):
    d, n = 0, nblocks
    while n > 1:
        n = -(-n // k)
        d += 1
    return max(d, 1)


def build(case, split_every):
    import dask
    from flox.core import groupby_reduce, groupby_scan

    arr = dec(case["arr"])
    by = dec(case["by"])
    d = to_dask(arr, case["chunks"])
    if case["scan"]:
        return groupby_scan(d, by, func=case["func"]), None
    kw = reduce_kwargs(case)
    if case.get("reindex") is not None:
        kw["reindex"] = case["reindex"]
    with dask.config.set(split_every=split_every):
        r, g = groupby_reduce(d, by, engine=case.get("engine"), method=case.get("method"), **kw)
    return r, g


def execute(case) -> Outcome:
    import dask

    out = Outcome()
    func = case["func"]
    sizes = case["chunks"][-1]
    nblocks = len(sizes)
    arr = dec(case["arr"])
    rtol, atol = tol_for(func, arr.dtype)
    out.label(f"func={func}", f"method={case.get('method')}", f"nblocks={nblocks}", "scan" if case["scan"] else "reduce")
    seed = case.get("sched_seed", 0)

    if case["scan"]:
        from flox.core import groupby_scan

        by = dec(case["by"])
        base = run(lambda: np.asarray(groupby_scan(arr, by, func=func)))
        splits = [None]
        out.nontrivial = nblocks >= 3
    else:
        def baseline():
            r, g = build(case, nblocks)
            with dask.config.set(scheduler="sync"):
                return np.asarray(r.compute())

        base = run(baseline)
        splits = split_values(nblocks)
        out.nontrivial = any(tree_depth(nblocks, k) >= 2 for k in splits)
    if base.kind == "refusal":
        out.label("baseline-refusal")
        out.nontrivial = False
        return out
    if base.kind == "error":
        et, fr = base.errsig()
        out.add(("exception", et, fr), f"baseline {base.describe()} func={func} method={case.get('method')}")
        return out

    # arg-reductions are only specified on NaN-free groups (nanarg*: not-all-NaN groups), as in C01/C02/C06
    spec = None
    if not case["scan"] and func in ARG_FUNCS and arr.dtype.kind == "f":
        by_ = dec(case["by"])
        labs = by_[~np.isnan(by_)] if by_.dtype.kind == "f" else by_
        spec = nan_group_mask(arr, by_, np.unique(labs), func)
    nruns = 0
    for si, k in enumerate(splits):
        g = run(lambda: build(case, k)[0])
        if not g.ok:
            if g.kind == "error":
                et, fr = g.errsig()
                out.add(("exception", et, fr), f"build split_every={k}: {g.describe()}")
            continue
        lazy = g.value
        # schedulers: all of them for the deepest tree, a rotating pair otherwise
        variants = [("sync", None), ("threads", None)] + [(o, None) for o in ORDERS] + [("random", "unopt"), ("max", "unopt")]
        if si != 0:
            j = (seed + si) % len(variants)
            variants = [("sync", None), variants[j], variants[(j + 3) % len(variants)]]
        for name, opt in variants:
            def go(name=name, opt=opt):
                if name == "sync":
                    return np.asarray(lazy.compute(scheduler="sync"))
                if name == "threads":
                    return np.asarray(lazy.compute(scheduler="threads", num_workers=4))
                s = OwnedScheduler(name, seed=seed + si)
                (v,) = dask.compute(lazy, scheduler=s, optimize_graph=(opt is None))
                return np.asarray(v)

            r = run(go)
            nruns += 1
            tag = f"split_every={k},sched={name}{'/unopt' if opt else ''}"
            if r.kind != "value":
                et, fr = r.errsig()
                out.add(("exception", et, fr), f"[{tag}] {r.describe()} func={func} method={case.get('method')}")
                continue
            if spec is not None and spec.shape == base.value.shape and r.value.shape == base.value.shape:
                same = bool(np.all(close(r.value, base.value, rtol, atol) | ~spec))
            else:
                same = arrays_match(r.value, base.value, rtol, atol)
            if not same:
                what = "tree-shape" if name == "sync" else "schedule"
                out.add(
                    ("differs", what, "scan" if case["scan"] else "reduce"),
                    f"[{tag}] func={func} method={case.get('method')} nblocks={nblocks}: {r.value.tolist()} != baseline "
                    f"{base.value.tolist()}",
                )
    out.label(f"runs={min(nruns, 40) // 10 * 10}+")
    return out
