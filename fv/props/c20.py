"""C20 — numeric fidelity: infinities kept, no narrow-integer wrap, stable var/std."""

from __future__ import annotations

import numpy as np
from hypothesis import strategies as st

from .. import gen
from ..base import Outcome
from ..cmp import close, groups_match
from ..codec import dec
from ..floxcall import chunked_reduce, eager_reduce, reduce_kwargs
from ..ref import group_positions, ref_1d, UNSPEC

ID = "C20"
RULE = (
    "Hypothesis, three case kinds. (inf) float arrays over {-inf,-2,0,3,+inf,NaN} with groups built to be all -inf / all "
    "+inf / all-NaN / mixed; min/max/nanmin/nanmax; every engine incl. the automatic one; eager + all chunked strategies; "
    "oracle = exact NumPy reference (an infinity is data). (int) int8/uint8/int16/uint16/int32/uint32 values near the "
    "type limits so that group totals/products exceed the input width but stay < 2**53; sum/nansum/prod/nanprod/mean/"
    "nanmean and var/std; oracle = exact Python-int totals (mean, var: float reference rtol 1e-12); eager + chunked. "
    "(var) float64 data |x|<=5 not on a dyadic grid, n<=60, asserted for well-conditioned groups only (variance >= 1e-4 * max(1, max|x|^2)); var/std/nanvar/nanstd ddof in {0,1}; oracle: |eager-chunked| "
    "<= 1e-9*|eager|+1e-11 on the variance (std results are squared first: the textbook formula's absolute error "
    "a few n*eps*max|x|^2 ~ 1e-12 is what 'floating-point accuracy for well-conditioned data' allows) and the same vs numpy.var. Non-trivial = (inf) a group whose true extreme is infinite; (int) a "
    "group total beyond the input dtype's range; (var) >=2 blocks."
)
BUDGET = {"quick": 600, "thorough": 4000}
ASSUMPTIONS = ["totals kept below 2**53 so that NumPy's float64 bincount path is not what is being tested"]

INT_ALPHA = {
    "|i1": [100, 127, -128, -100, 50, 1, -3],
    "|u1": [200, 255, 100, 1, 0],
    "<i2": [30000, 32767, -32768, -20000, 5],
    "<u2": [60000, 65535, 40000, 2],
    "<i4": [2147483647, -2147483648, 2000000000, 7],
    "<u4": [4294967295, 4000000000, 3],
    # 64-bit integers whose SQUARES exceed the 64-bit range (sums of squares must be formed in floating point)
    "<i8": [3100000000, -3100000000, 4000000000, 5, -7],
    "<u8": [3100000000, 4000000000, 5],
}
PROD_ALPHA = {
    "|i1": [1, -1, 2, -3, 10, 100],
    "|u1": [1, 2, 3, 10, 200],
    "<i2": [1, -1, 2, 300, -200],
    "<u2": [1, 2, 300, 1000],
    "<i4": [1, -1, 3, 70000],
    "<u4": [1, 2, 70000],
    "<i8": [1, -1, 3, 70000],
    "<u8": [1, 2, 70000],
}
LIMITS = {k: (np.iinfo(np.dtype(k)).min, np.iinfo(np.dtype(k)).max) for k in INT_ALPHA}


@st.composite
def cases(draw, tier="quick"):
    kind = draw(st.sampled_from(["inf", "inf", "int", "int", "var"]))
    if kind == "inf":
        func = draw(st.sampled_from(["max", "min", "nanmax", "nanmin"]))
        dt = draw(st.sampled_from(["<f8", "<f8", "<f4"]))
        n = draw(st.integers(2, 18))
        lab = gen.draw_labels(draw, n, kinds=["int", "float", "str"], max_groups=5)
        alpha = ["-inf", -2.0, 0.0, 3.0, "inf", "nan"]
        vals = draw(st.lists(st.sampled_from(alpha), min_size=n, max_size=n))
        # force some groups to be homogeneous (all -inf / all +inf / all NaN)
        codes = lab["spec"]["v"]
        distinct = [c for c in dict.fromkeys(codes) if c != "nan"]
        for g in distinct[: draw(st.integers(0, len(distinct)))]:
            forced = draw(st.sampled_from(["-inf", "inf", "nan", None, "-inf"]))
            if forced is not None:
                vals = [forced if c == g else v for v, c in zip(vals, codes)]
        engine = draw(st.sampled_from(["numpy", "flox", "flox", "numbagg", None, None]))
    elif kind == "int":
        func = draw(st.sampled_from(["sum", "nansum", "prod", "nanprod", "mean", "nanmean", "var", "std", "nanvar"]))
        dt = draw(st.sampled_from(list(INT_ALPHA)))
        isprod = "prod" in func
        n = draw(st.integers(2, 7 if isprod else 18))
        lab = gen.draw_labels(draw, n, kinds=["int", "float"], max_groups=3)
        alpha = PROD_ALPHA[dt] if isprod else INT_ALPHA[dt]
        vals = draw(st.lists(st.sampled_from(alpha), min_size=n, max_size=n))
        if isprod:  # keep |product of everything| < 2**53 (deterministic post-processing of the draw)
            while True:
                p = 1
                for x in vals:
                    p *= abs(x) if x else 1
                if p < 2**53:
                    break
                i = max(range(n), key=lambda j: abs(vals[j]))
                vals[i] = 1
        engine = draw(st.sampled_from(["numpy", "flox", "numbagg", "numbagg", None, None]))
    else:
        func = draw(st.sampled_from(["var", "std", "nanvar", "nanstd"]))
        dt = "<f8"
        n = draw(st.integers(4, 60))
        lab = gen.draw_labels(draw, n, kinds=["int"], max_groups=4)
        m = draw(st.floats(-4, 4, allow_nan=False))
        vals = draw(st.lists(st.floats(-1, 1, allow_nan=False, width=64), min_size=n, max_size=n))
        vals = [float(m + v) for v in vals]
        if func.startswith("nan") and draw(st.booleans()):
            for i in draw(st.lists(st.integers(0, n - 1), max_size=4)):
                vals[i] = "nan"
        engine = draw(st.sampled_from(["numpy", "flox", "numbagg", None]))
    case = {"kind": kind, "arr": {"dt": dt, "sh": [n], "v": vals}, "by": lab["spec"], "func": func, "engine": engine}
    if gen.func_family(func) == "var":
        case["ddof"] = draw(st.sampled_from([0, 1]))
    chunks = [gen.draw_chunks(draw, n, max_blocks=8)]
    plans = []
    for m_ in draw(st.permutations([None, "map-reduce", "cohorts"]))[:2]:
        plans.append({"method": m_, "reindex": draw(st.sampled_from([None, False, True])), "chunks": chunks,
                      "by_dask": False, "by_chunks": None, "split_every": draw(st.sampled_from([None, 2]))})  # fmt: skip
    case["plans"] = plans
    return case


def strategy(tier):
    return cases(tier)


def int_reference(arr, by, func, ddof):
    """exact python-int totals"""
    pos = group_positions(by)
    keys = sorted(pos)
    out = []
    for k in keys:
        m = [int(x) for x in arr[pos[k]].tolist()]
        if "sum" in func:
            out.append(sum(m))
        elif "prod" in func:
            p = 1
            for x in m:
                p *= x
            out.append(p)
        elif "mean" in func:
            out.append(sum(m) / len(m))
        else:
            if len(m) <= ddof:
                out.append(UNSPEC)
            else:
                mu = sum(m) / len(m)
                v = sum((x - mu) ** 2 for x in m) / (len(m) - ddof)
                out.append(v**0.5 if "std" in func else v)
    return keys, out


def execute(case) -> Outcome:
    out = Outcome()
    arr = dec(case["arr"])
    by = dec(case["by"])
    func = case["func"]
    kind = case["kind"]
    engine = case["engine"]
    kw = reduce_kwargs(case)
    ddof = case.get("ddof") or 0
    out.label(f"kind={kind}", f"func={func}", f"engine={engine}", f"dtype={arr.dtype.str}")

    if kind == "int":
        keys, want = int_reference(arr, by, func, ddof)
        lo, hi = LIMITS[case["arr"]["dt"]]
        if "sum" in func or "prod" in func:
            out.nontrivial = any(w is not UNSPEC and not (lo <= w <= hi) for w in want)
        else:
            pos = group_positions(by)
            out.nontrivial = any(not (lo <= sum(int(x) for x in arr[p].tolist()) <= hi) or
                                 any(int(x) ** 2 > hi for x in arr[p].tolist()) for p in pos.values())  # fmt: skip
    else:
        keys, want, _, _ = ref_1d(arr, by, func, ddof=ddof)
        if kind == "inf":
            out.nontrivial = any(w is not UNSPEC and np.isinf(w) for w in want)
        else:
            out.nontrivial = len(case["plans"][0]["chunks"][0]) >= 2
            # the property speaks about WELL-CONDITIONED data: groups whose variance is tiny relative to their
            # magnitude (constant or nearly constant members) are not asserted - a one-pass kernel may legitimately
            # return a tiny negative variance (NaN std) there
            pos = group_positions(by)
            want = list(want)
            for i, k in enumerate(keys):
                m = arr[pos[k]].astype(np.float64)
                m = m[~np.isnan(m)]
                if m.size < 2 or np.var(m) < 1e-4 * max(1.0, float(np.max(np.abs(m))) ** 2):
                    want[i] = UNSPEC
    if not keys:
        return out

    def check(res, where):
        result, (groups,) = res.value
        if not groups_match(groups, np.asarray(keys)):
            out.add(("groups", where), f"[{where}] groups {groups!r} != {keys!r}")
            return None
        if result.shape != (len(keys),):
            out.add(("shape", where), f"[{where}] shape {result.shape}")
            return None
        for i, w in enumerate(want):
            if w is UNSPEC:
                continue
            got = result[i]
            if kind == "int" and ("sum" in func or "prod" in func):
                ok = result.dtype.kind in "iu" and int(got) == w
                if not ok and result.dtype.kind == "f":
                    ok = float(got) == float(w)
            elif kind == "inf":
                ok = bool(close(np.asarray(got), np.asarray(w)))
            else:
                g64, w64 = np.float64(got), np.float64(w)
                if "std" in func:  # compare variances: |d std| can legitimately be sqrt(|d var|)
                    g64, w64 = g64 * g64, w64 * w64
                scale = 1.0 if kind == "var" else float(max(abs(w64), 1.0))
                ok = bool(close(np.asarray(g64), np.asarray(w64), 1e-9, 1e-11 * scale))
            if not ok:
                sym = "inf-lost" if kind == "inf" and np.isinf(w) else ("wrong" if kind != "int" else "int-width")
                out.add(
                    (kind, func if kind == "inf" else gen.func_family(func), sym, where.split(":")[0], f"engine={engine}"),
                    f"[{where}] func={func} engine={engine} dtype={arr.dtype} group {keys[i]!r}: got {got!r}, "
                    f"exact reference {w!r}; members={arr[group_positions(by)[keys[i]]].tolist()}",
                )
                return None
        return result

    e = eager_reduce(arr, [by], kw, engine=engine)
    eres = None
    if e.kind == "error":
        et, fr = e.errsig()
        out.add(("exception", et, fr), f"eager {e.describe()} func={func} engine={engine}")
    elif e.ok:
        eres = check(e, "eager")
    else:
        out.label("eager-refusal")
    for plan in case["plans"]:
        pl = f"chunked:method={plan['method']},reindex={plan['reindex']},split_every={plan.get('split_every')}"
        c = chunked_reduce(arr, [by], kw, plan, engine=engine)
        if c.kind == "refusal":
            out.label(f"refusal:{plan['method']}")
            continue
        if c.kind == "error":
            et, fr = c.errsig()
            out.add(("exception", et, fr), f"{c.describe()} [{pl}] func={func} engine={engine}")
            continue
        out.label(f"value:{plan['method']}")
        cres = check(c, pl)
        if kind == "var" and eres is not None and cres is not None:
            a, b = (cres * cres, eres * eres) if "std" in func else (cres, eres)
            wellcond = np.array([w is not UNSPEC for w in want])
            if not bool(np.all(close(a, b, 1e-9, 1e-11) | ~wellcond)):
                out.add(("var", "eager-vs-chunked"), f"[{pl}] func={func}: chunked {cres.tolist()} vs eager {eres.tolist()}")
    return out
