"""C01 — eager grouped reduction == per-group NumPy reduction, on every engine."""

from __future__ import annotations

import numpy as np
from hypothesis import strategies as st

from .. import gen
from ..base import Outcome
from ..cmp import groups_match, mismatch_vs_ref, tol_for
from ..codec import dec
from ..floxcall import eager_reduce, reduce_kwargs, relayout
from ..ref import UNSPEC, ref_1d

ID = "C01"
RULE = (
    "Hypothesis-generated (values x labels x reduction x engines) eager calls; oracle = per-group NumPy "
    "reference on members in original order, every engine in {numpy, flox, numbagg, numba, None} that "
    "accepts the call must match it. Non-trivial = >=2 groups, some group with >=2 members, and at least "
    "one of {NaN inside a multi-member group, missing label, unsorted labels, negative value, "
    "unrequested label}. distinct = distinct SHA-1 of canonical case JSON. Exact comparison on dyadic "
    "alphabets; var/std rtol=atol=1e-12 (float32: 1e-5); float32 mean rtol 1e-6."
)
BUDGET = {"quick": 600, "thorough": 4000}
ASSUMPTIONS = [
    "NumPy's own reductions are the oracle",
    "values restricted to dyadic alphabets so that summation order cannot perturb results",
    "arg* asserted only on NaN-free groups, nanarg* on not-all-NaN groups, any/all on bool data, var/std only when count > ddof (property text)",
]

FUNCS = [
    "sum", "nansum", "prod", "nanprod", "mean", "nanmean", "var", "nanvar", "std", "nanstd",
    "max", "nanmax", "min", "nanmin", "argmax", "nanargmax", "argmin", "nanargmin",
    "first", "nanfirst", "last", "nanlast", "count",
]  # fmt: skip
ENGINES = ["numpy", "flox", "numbagg", "numba", None]


@st.composite
def cases(draw, tier="quick"):
    func = draw(st.sampled_from(FUNCS + ["any", "all"]))
    if func in ("any", "all"):
        dt = "|b1"
    else:
        dts = ["<f8", "<f8", "<f8", "<f4", "<i8", "<i8", "|i1", "<i4", "<u8", "|u1", "|b1"]
        if tier == "thorough":
            dts += ["<i2", "<u2", "<u4"]
        dt = draw(st.sampled_from(dts))
    many = draw(st.integers(0, 5)) == 0
    n = draw(st.integers(1, 24 if tier == "quick" else 40)) if not many else draw(st.integers(20, 44))
    batch = draw(st.sampled_from([[], [], [], [2], [3], [1], [2, 2], [1, 3]]))
    nb = int(np.prod(batch)) if batch else 1
    vals = gen.draw_values(draw, n * nb, dt, func)
    lab = gen.draw_labels(draw, n, kinds=gen.LABEL_KINDS + ["datetime"], max_groups=26 if many else 6)
    case = {
        "arr": {"dt": dt, "sh": batch + [n], "v": vals},
        "by": lab["spec"],
        "func": func,
    }
    if gen.func_family(func) == "var":
        case["ddof"] = draw(st.sampled_from([None, 0, 1, 1, 2]))
    # requested subset of the present labels: unrequested labels must contribute nowhere
    present = []
    for v in lab["spec"]["v"]:
        if v not in ("nan", "nat") and v not in present:
            present.append(v)
    if present and draw(st.integers(0, 3 if not many else 1)) == 0:
        k = draw(st.integers(1, len(present))) if not many else draw(st.integers(max(1, len(present) - 3), len(present)))
        sub = sorted(draw(st.permutations(present))[:k])
        case["expected"] = {"labels": sub, "as": draw(st.sampled_from(["array", "list", "index"]))}
        if lab["kind"] == "floatint" and all(float(x).is_integer() for x in sub) and draw(st.booleans()):
            case["expected"]["cast"] = "int"
    # numba compiles per (func, dtype): use it sparingly
    engines = ["numpy", "flox", "numbagg", None]
    if draw(st.integers(0, 5 if tier == "quick" else 3)) == 0 and dt in ("<f8", "<i8", "<f4", "|b1"):
        engines.append("numba")
    case["engines"] = engines
    case["layout"] = draw(st.sampled_from([None, None, None, "F", "strided"]))
    case["as_list"] = draw(st.sampled_from([None, None, None, "by", "both"])) if lab["kind"] != "datetime" else None
    # an explicit dtype= (values must be unaffected apart from the cast; numbagg refuses dtype=)
    if draw(st.integers(0, 4)) == 0 and func not in ("any", "all", "count") and "arg" not in func:
        if "f" in dt or func_is_float(func):
            case["dtype"] = draw(st.sampled_from(["<f8", "<f4"]))
        elif dt != "|b1":
            case["dtype"] = draw(st.sampled_from(["<i8", "<f8"]))
    return case


def func_is_float(func):
    f = func[3:] if func.startswith("nan") else func
    return f in ("mean", "var", "std")


def strategy(tier):
    return cases(tier)


def reference(arr, by, case):
    """list over batch rows of (keys, res, nmem, nvalid)"""
    requested = None
    if case.get("expected") is not None:
        from ..codec import unnum

        requested = [unnum(x) for x in case["expected"]["labels"]]
        if by.dtype.kind == "M":
            requested = [np.datetime64(int(x), "ns") for x in requested]
    rows = arr.reshape(-1, arr.shape[-1])
    out = []
    for r in rows:
        out.append(ref_1d(r, by, case["func"], requested=requested, sort=True, ddof=case.get("ddof") or 0))
    return out


def execute(case) -> Outcome:
    out = Outcome()
    arr = relayout(dec(case["arr"]), case.get("layout"))
    by = relayout(dec(case["by"]), case.get("layout"))
    func = case["func"]
    kw = reduce_kwargs(case)
    refs = reference(arr, by, case)
    keys, _, nmem, _ = refs[0]
    rtol, atol = tol_for(func, arr.dtype)
    if case.get("dtype") == "<f4" and gen.func_family(func) == "var":
        rtol, atol = 1e-5, 1e-5
    elif case.get("dtype") == "<f4":
        rtol, atol = 1e-6, 1e-9  # a requested float32 result is rounded to float32

    # non-triviality
    labs = [x for x in case["by"]["v"] if x not in ("nan", "nat")]
    unsorted = any(a > b for a, b in zip(labs[:-1], labs[1:])) if labs else False
    has_missing = any(x in ("nan", "nat") for x in case["by"]["v"])
    neg = any((not isinstance(v, str)) and v < 0 for v in case["arr"]["v"])
    nan_in_multi = False
    if arr.dtype.kind == "f":
        from ..ref import group_positions

        for k, idx in group_positions(by, keys).items():
            if len(idx) >= 2 and np.isnan(arr.reshape(-1, arr.shape[-1])[:, idx]).any():
                nan_in_multi = True
    unrequested = case.get("expected") is not None and len(set(labs)) > len(keys)
    out.nontrivial = (
        len(keys) >= 2 and max(nmem, default=0) >= 2 and (nan_in_multi or has_missing or unsorted or neg or unrequested)
    )
    out.label(f"func={func}", f"dtype={arr.dtype.str}", f"labels={case['by']['dt']}", f"dtype_kw={case.get('dtype')}")

    arr_in, by_in = arr, by
    if case.get("as_list"):
        by_in = by.tolist()  # array-likes are documented to be accepted
        if case["as_list"] == "both":
            arr_in = arr.tolist()
    for engine in case["engines"]:
        r = eager_reduce(arr_in, [by_in], kw, engine=engine)
        if r.kind == "refusal":
            out.label(f"refusal:{engine}")
            continue
        if r.kind == "error":
            et, fr = r.errsig()
            out.add(("exception", et, fr), f"{r.describe()} engine={engine} func={func}")
            continue
        out.label(f"value:{engine}")
        result, (groups,) = r.value
        if not groups_match(groups, np.asarray(keys)):
            out.add(("groups", f"engine={engine}"), f"groups {groups!r} != reference {keys!r}")
            continue
        want_shape = arr.shape[:-1] + (len(keys),)
        if result.shape != want_shape:
            out.add(("shape", func, f"engine={engine}"), f"shape {result.shape} != {want_shape}")
            continue
        if not keys:
            continue
        res2 = result.reshape(-1, len(keys))
        for irow, (_, rres, _, _) in enumerate(refs):
            bad = mismatch_vs_ref(res2[irow], rres, rtol, atol)
            if bad:
                i = bad[0]
                symptom = classify(res2[irow][i], rres[i])
                out.add(
                    ("value", func, f"engine={engine}", f"dtype={arr.dtype.kind}", symptom),
                    f"engine={engine} func={func} row={irow} group={keys[i]!r}: got {res2[irow][i]!r}, "
                    f"NumPy reference {rres[i]!r}",
                )
                break
    return out


def classify(got, want) -> str:
    try:
        g, w = float(got), float(want)
    except (TypeError, ValueError):
        return "other"
    if np.isnan(w) and not np.isnan(g):
        return "nan-not-propagated"
    if np.isnan(g) and not np.isnan(w):
        return "spurious-nan"
    return "wrong-value"


_ = UNSPEC
