"""C17 — rechunking helpers keep the data and establish their alignment postconditions."""

from __future__ import annotations

import numpy as np
from hypothesis import strategies as st

from .. import gen
from ..base import Outcome, run
from ..codec import dec
from .c09 import compositions

ID = "C17"
RULE = (
    "Hypothesis: label sequences of three families (sequential runs of arbitrary lengths with sorted or unsorted distinct "
    "labels; periodic with jitter like 1,2,3,1,2,3,4,...; irregular), n<=60; arrays of 1-3 dims rechunked along a drawn "
    "axis with arbitrary initial chunkings; chunksize in {None, 1..n}; force_new_chunk_at = non-empty subsets of present "
    "labels (only-absent labels => must be a clean ValueError); ignore_old_chunks; array, DataArray and Dataset flavours; plus sequences of 2-6 "
    "calls on the SAME dask array with different sequential label arrays (the boundary heuristic is memoised). "
    "Exhaustive small scope: all run-length compositions of n<=6 (thorough 9) x all initial chunk compositions for "
    "rechunk_for_blockwise and for method='blockwise'. Oracle (postconditions): same shape, dtype and computed values; "
    "chunks along the axis all > 0 and summing to n; other axes' chunks untouched; input object (and its chunks) unmodified; "
    "blockwise + sequential labels: no label occurs in two chunks; cohorts: every index whose label is forced starts a chunk "
    "and, unless ignore_old_chunks, every old boundary is still a boundary; groupby_reduce(..., method='blockwise') on 1-D "
    "sequential labels == eager result with no duplicated groups. Non-trivial = (blockwise) an old boundary strictly inside "
    "a group; (cohorts) a forced label strictly inside an old chunk."
)
FUZZ_TARGET = "c17"  # thorough tier: 8 atheris shards on rechunk_for_blockwise's boundary heuristic
FUZZ_RUNS = 20000
BUDGET = {"quick": 600, "thorough": 4000}
ASSUMPTIONS = ["rechunk_for_blockwise's no-straddle postcondition is asserted for sequential labels only (its documented domain)"]


def seq_labels(draw, n, sortedlabels):
    runs, total = [], 0
    while total < n:
        r = draw(st.integers(1, 7))
        runs.append(min(r, n - total))
        total += runs[-1]
    ids = list(range(len(runs)))
    if not sortedlabels:
        ids = list(draw(st.permutations(ids)))
    out = []
    for i, r in zip(ids, runs):
        out += [i * 2 + 1] * r
    return out


@st.composite
def cases(draw, tier="quick"):
    mode = draw(st.sampled_from(["blockwise", "blockwise", "cohorts", "cohorts", "reduce-blockwise", "blockwise-sequence"]))
    if mode == "blockwise-sequence":
        # the SAME dask array is rechunked / reduced for several different sequential label arrays in a row:
        # the memoised boundary heuristic must be keyed on content
        n = draw(st.integers(4, 40))
        k = draw(st.integers(2, 6))
        seqs = [seq_labels(draw, n, True) for _ in range(k)]
        return {"mode": mode, "n": n, "labelsets": seqs, "chunks": [gen.draw_chunks(draw, n, max_blocks=10)],
                "reduce": draw(st.booleans())}
    n = draw(st.integers(1, 60 if mode != "reduce-blockwise" else 30))
    if mode in ("blockwise", "reduce-blockwise"):
        labels = seq_labels(draw, n, draw(st.integers(0, 3)) != 0)
    else:
        fam = draw(st.sampled_from(["periodic", "periodic", "irregular", "runs"]))
        if fam == "periodic":
            period = draw(st.integers(1, 6))
            labels, i = [], 0
            while len(labels) < n:
                p = period + draw(st.sampled_from([0, 0, 0, 1]))
                labels += list(range(1, p + 1))
                i += 1
            labels = labels[:n]
        elif fam == "irregular":
            labels = draw(st.lists(st.integers(0, 5), min_size=n, max_size=n))
        else:
            labels = seq_labels(draw, n, True)
    ndim = draw(st.sampled_from([1, 1, 2, 3])) if mode != "reduce-blockwise" else 1
    axis = draw(st.integers(0, ndim - 1))
    shape = [draw(st.integers(1, 3)) for _ in range(ndim)]
    shape[axis] = n
    chunks = [gen.draw_chunks(draw, s, max_blocks=10) for s in shape]
    case = {"mode": mode, "labels": {"dt": "<i8", "sh": [n], "v": labels}, "shape": shape, "axis": axis, "chunks": chunks,
            "flavour": draw(st.sampled_from(["array", "array", "dataarray", "dataset"])) if mode != "reduce-blockwise" else "array",
            "neg_axis": draw(st.booleans())}  # fmt: skip
    if mode == "cohorts":
        present = sorted(set(labels))
        k = draw(st.integers(1, min(3, len(present))))
        force = list(draw(st.permutations(present))[:k])
        if draw(st.integers(0, 7)) == 0:
            force = [99]  # absent only -> ValueError
        elif draw(st.integers(0, 5)) == 0:
            force = force + [99]
        case["force"] = force
        case["chunksize"] = draw(st.sampled_from([None, None, 1, 2, 3, 5, 8, n]))
        case["ignore_old"] = draw(st.booleans())
    if mode == "reduce-blockwise":
        case["func"] = draw(st.sampled_from(["sum", "nanmax", "count", "mean", "first", "last", "median", "nanfirst"]))
    return case


def strategy(tier):
    return cases(tier)


def enumerate_cases(tier):
    maxn = 6 if tier == "quick" else 9
    for n in range(1, maxn + 1):
        for runs in compositions(n):
            labels = []
            for i, r in enumerate(runs):
                labels += [i] * r
            for ci, ch in enumerate(compositions(n)):
                yield {"mode": "blockwise", "labels": {"dt": "<i8", "sh": [n], "v": labels}, "shape": [n], "axis": 0, "chunks": [ch],
                       "flavour": "array", "neg_axis": False}  # fmt: skip
                if (ci + len(runs)) % 4 == 0:
                    yield {"mode": "reduce-blockwise", "labels": {"dt": "<i8", "sh": [n], "v": labels}, "shape": [n], "axis": 0,
                           "chunks": [ch], "flavour": "array", "neg_axis": False, "func": ["sum", "first", "nanmax", "median"][ci % 4]}  # fmt: skip


def exhaustive_note(tier):
    return f"rechunk_for_blockwise on all run-length compositions of n<=" + str(6 if tier == "quick" else 9) + " x all initial chunk compositions (and method='blockwise' on a quarter of them)"


def boundaries(chunks):
    return set(np.cumsum(chunks)[:-1].tolist())


def execute(case) -> Outcome:
    import dask.array as da
    import xarray as xr
    from flox import core as fc
    from flox import xarray as fx

    out = Outcome()
    mode = case["mode"]
    if mode == "blockwise-sequence":
        return exec_sequence(case, out)
    labels = dec(case["labels"])
    shape = tuple(case["shape"])
    axis = case["axis"]
    n = shape[axis]
    chunks = tuple(tuple(c) for c in case["chunks"])
    arr = np.arange(int(np.prod(shape)), dtype=np.float64).reshape(shape)
    d = da.from_array(arr, chunks=chunks)
    out.label(f"mode={mode}", f"flavour={case['flavour']}", f"ndim={len(shape)}")
    oldb = boundaries(chunks[axis])
    runs_starts = {i for i in range(1, n) if labels[i] != labels[i - 1]}

    if mode == "reduce-blockwise":
        return exec_reduce(case, out, arr, d, labels, oldb, runs_starts)

    if mode == "blockwise":
        out.nontrivial = bool(oldb - runs_starts)
    else:
        forced_idx = {i for i in range(n) if labels[i] in case["force"]}
        out.nontrivial = bool((forced_idx - oldb) - {0})

    ax_arg = axis - len(shape) if case.get("neg_axis") and case["flavour"] == "array" else axis
    dims = [f"d{i}" for i in range(len(shape))]

    def call():
        if case["flavour"] == "array":
            if mode == "blockwise":
                return fc.rechunk_for_blockwise(d, axis=ax_arg, labels=labels), None
            return fc.rechunk_for_cohorts(d, axis=ax_arg, labels=labels, force_new_chunk_at=case["force"], chunksize=case.get("chunksize"),
                                          ignore_old_chunks=case.get("ignore_old", False)), None  # fmt: skip
        lab = xr.DataArray(labels, dims=[dims[axis]], name="lab")
        v = xr.DataArray(d, dims=dims, name="v", attrs={"units": "m"})
        obj = v if case["flavour"] == "dataarray" else xr.Dataset({"v": v, "plain": xr.DataArray(arr, dims=dims), "w": v * 2})
        before = obj.copy(deep=False)
        if mode == "blockwise":
            res = fx.rechunk_for_blockwise(obj, dims[axis], lab)
        else:
            res = fx.rechunk_for_cohorts(obj, dims[axis], lab, force_new_chunk_at=case["force"], chunksize=case.get("chunksize"),
                                         ignore_old_chunks=case.get("ignore_old", False))  # fmt: skip
        return res, (obj, before)

    r = run(call)
    only_absent = mode == "cohorts" and not any(f in set(labels.tolist()) for f in case["force"])
    if r.kind == "refusal":
        out.label("refusal")
        if not only_absent:
            out.add(("unexpected-refusal", mode), f"{mode}: {r.describe()} labels={labels.tolist()} chunks={chunks} case={ {k: case[k] for k in case if k not in ('labels',)} }")
        return out
    if r.kind == "error":
        et, fr = r.errsig()
        out.add(("exception", et, fr), f"{mode}: {r.describe()} labels={labels.tolist()} chunks={chunks[axis]} force={case.get('force')} chunksize={case.get('chunksize')}")
        return out
    if only_absent:
        out.add(("absent-force-not-refused",), f"rechunk_for_cohorts accepted force_new_chunk_at={case['force']} although none of these labels is present")
        return out
    res, xinfo = r.value
    if xinfo is not None:
        obj, before = xinfo
        if not obj.identical(before) or (obj.chunks != before.chunks):
            out.add(("input-object-modified", case["flavour"]), "the xarray helper modified its input object")
        darrs = [res.data] if case["flavour"] == "dataarray" else [res["v"].data, res["w"].data]
        if case["flavour"] == "dataset":
            if not isinstance(res["plain"].data, np.ndarray) or not np.array_equal(res["plain"].values, arr):
                out.add(("unchunked-variable-changed",), "a NumPy-backed Dataset variable was changed by the helper")
            if res["v"].attrs != {"units": "m"}:
                out.add(("attrs-lost",), "attributes lost")
        want_vals = [arr] if case["flavour"] == "dataarray" else [arr, arr * 2]
    else:
        darrs = [res]
        want_vals = [arr]
    if d.chunks != chunks:
        out.add(("input-object-modified", "array"), "input dask array chunks changed")
    for new, want in zip(darrs, want_vals):
        if new.shape != shape or new.dtype != arr.dtype:
            out.add(("shape-or-dtype", mode), f"result shape/dtype {new.shape}/{new.dtype} != {shape}/{arr.dtype}")
            return out
        nc = new.chunks
        if any(c <= 0 for c in nc[axis]) or sum(nc[axis]) != n:
            out.add(("bad-chunks", mode), f"chunks along axis {nc[axis]} (n={n})")
            return out
        for ax in range(len(shape)):
            if ax != axis and nc[ax] != chunks[ax]:
                out.add(("other-axis-rechunked", mode), f"axis {ax} chunks changed {chunks[ax]} -> {nc[ax]}")
                return out
        if not np.array_equal(np.asarray(new.compute(scheduler="sync")), want):
            out.add(("values-changed", mode), "computed values differ after rechunking")
            return out
        newb = boundaries(nc[axis])
        if mode == "blockwise":
            inside = newb - runs_starts
            if inside:
                out.add(("group-straddles-chunk",), f"rechunk_for_blockwise: labels={labels.tolist()} old chunks={chunks[axis]} -> new chunks {nc[axis]}: "
                        f"boundary at {sorted(inside)} splits a group")  # fmt: skip
                return out
        else:
            forced_idx = {i for i in range(1, n) if labels[i] in case["force"]}
            if not forced_idx <= newb:
                out.add(("forced-label-not-chunk-start",), f"rechunk_for_cohorts: labels={labels.tolist()} force={case['force']} chunksize={case.get('chunksize')} "
                        f"old={chunks[axis]} -> new {nc[axis]}: forced positions {sorted(forced_idx - newb)} do not start a chunk")  # fmt: skip
                return out
            if not case.get("ignore_old") and not oldb <= newb:
                out.add(("old-boundary-dropped",), f"rechunk_for_cohorts (ignore_old_chunks=False): old boundaries {sorted(oldb - newb)} lost; old={chunks[axis]} new={nc[axis]} "
                        f"labels={labels.tolist()} force={case['force']} chunksize={case.get('chunksize')}")  # fmt: skip
                return out
    return out


def exec_sequence(case, out):
    import dask.array as da
    from flox import core as fc

    n = case["n"]
    chunks = (tuple(case["chunks"][0]),)
    arr = np.arange(n, dtype=np.float64)
    d = da.from_array(arr, chunks=chunks)
    oldb = boundaries(chunks[0])
    out.label("mode=blockwise-sequence", f"k={len(case['labelsets'])}")
    out.nontrivial = len(case["labelsets"]) >= 2 and any(oldb - {i for i in range(1, n) if ls[i] != ls[i - 1]} for ls in case["labelsets"])
    for step, ls in enumerate(case["labelsets"]):
        labels = np.array(ls)
        starts = {i for i in range(1, n) if labels[i] != labels[i - 1]}
        r = run(lambda: fc.rechunk_for_blockwise(d, axis=0, labels=labels))
        if r.kind != "value":
            et, fr = r.errsig()
            out.add(("exception", et, fr), f"call #{step} of a sequence on one array: {r.describe()} labels={ls} chunks={chunks}")
            return out
        nc = r.value.chunks[0]
        if sum(nc) != n or any(c <= 0 for c in nc):
            out.add(("bad-chunks", "sequence"), f"call #{step}: chunks {nc}")
            return out
        inside = boundaries(nc) - starts
        if inside:
            out.add(("group-straddles-chunk", "in-a-sequence-of-calls"), f"call #{step} of {len(case['labelsets'])} on the same dask array: labels={ls} old chunks="
                    f"{chunks[0]} -> new chunks {nc}: boundary at {sorted(inside)} splits a group (earlier label sets: {case['labelsets'][:step]})")  # fmt: skip
            return out
        if case.get("reduce"):
            e = run(lambda: fc.groupby_reduce(arr, labels, func="sum"))
            c = run(lambda: [np.asarray(x.compute(scheduler="sync")) if hasattr(x, "compute") else np.asarray(x) for x in fc.groupby_reduce(d, labels, func="sum", method="blockwise")])
            if c.kind != "value":
                et, fr = c.errsig()
                out.add(("exception", et, fr), f"call #{step}: method='blockwise' on sequential labels: {c.describe()} labels={ls} chunks={chunks}")
                return out
            if e.ok and (c.value[0].shape != np.asarray(e.value[0]).shape or not np.array_equal(c.value[0], e.value[0]) or not np.array_equal(c.value[1], e.value[1])):
                out.add(("blockwise-values", "in-a-sequence-of-calls"), f"call #{step}: method='blockwise' {c.value[0].tolist()} != eager {np.asarray(e.value[0]).tolist()} labels={ls}")
                return out
    return out


def exec_reduce(case, out, arr, d, labels, oldb, runs_starts):
    from flox.core import groupby_reduce

    func = case["func"]
    out.nontrivial = bool(oldb - runs_starts)
    out.label(f"func={func}")
    e = run(lambda: groupby_reduce(arr, labels, func=func))
    c = run(lambda: groupby_reduce(d, labels, func=func, method="blockwise"))
    if not e.ok:
        out.label("eager-not-ok")
        return out
    if c.kind == "refusal":
        out.add(("unexpected-refusal", "method=blockwise"), f"method='blockwise' on sequential 1-D labels refused: {c.describe()} labels={labels.tolist()} chunks={case['chunks']}")
        return out
    if c.kind == "error":
        et, fr = c.errsig()
        out.add(("exception", et, fr), f"method='blockwise': {c.describe()} labels={labels.tolist()} chunks={case['chunks']}")
        return out
    cres, cg = c.value
    cv = run(lambda: np.asarray(cres.compute(scheduler="sync")))
    if cv.kind != "value":
        et, fr = cv.errsig()
        out.add(("exception", et, fr), f"method='blockwise' compute: {cv.describe()} labels={labels.tolist()} chunks={case['chunks']}")
        return out
    eres, eg = e.value
    cg = np.asarray(cg)
    if len(set(cg.tolist())) != len(cg) or not np.array_equal(cg, np.asarray(eg)):
        out.add(("blockwise-groups",), f"method='blockwise' groups {cg.tolist()} != eager {np.asarray(eg).tolist()} (labels={labels.tolist()} chunks={case['chunks']})")
        return out
    if cv.value.shape != eres.shape or not np.array_equal(cv.value, eres, equal_nan=True):
        out.add(("blockwise-values", func), f"method='blockwise' {cv.value.tolist()} != eager {np.asarray(eres).tolist()} (labels={labels.tolist()} chunks={case['chunks']})")
    return out
