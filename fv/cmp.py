"""Comparison policy (DESIGN §3.1): exact / NaN-aware / stated tolerance."""

from __future__ import annotations

import numpy as np

from .ref import UNSPEC

TOL = {
    "exact": (0.0, 0.0),
    "var64": (1e-12, 1e-12),
    "var32": (1e-5, 1e-5),
    "mean32": (1e-6, 0.0),
}


def tol_for(func: str, dtype) -> tuple:
    f = func[3:] if func.startswith("nan") else func
    k = np.dtype(dtype)
    if f in ("var", "std"):
        return TOL["var32"] if (k.kind == "f" and k.itemsize <= 4) else TOL["var64"]
    if f in ("mean",) and k.kind == "f" and k.itemsize <= 4:
        return TOL["mean32"]
    if f in ("mean",):
        return (1e-15, 0.0)
    return TOL["exact"]


def as_float(a):
    a = np.asarray(a)
    if a.dtype.kind in "Mm":
        out = a.view(np.int64).astype(np.float64)
        out[np.isnat(a)] = np.nan
        return out
    if a.dtype.kind == "O":
        return np.array([np.nan if x is None else float(x) for x in a.reshape(-1)], dtype=np.float64).reshape(a.shape)
    return a.astype(np.float64)


def close(a, b, rtol=0.0, atol=0.0):
    """elementwise NaN-aware closeness mask for float arrays"""
    a = as_float(a)
    b = as_float(b)
    with np.errstate(all="ignore"):
        eq = (a == b) | (np.isnan(a) & np.isnan(b))
        if rtol or atol:
            eq |= np.abs(a - b) <= (atol + rtol * np.abs(b))
    return eq


def arrays_match(a, b, rtol=0.0, atol=0.0) -> bool:
    a = np.asarray(a)
    b = np.asarray(b)
    if a.shape != b.shape:
        return False
    if a.dtype.kind in "USO" or b.dtype.kind in "USO":
        if a.dtype.kind in "US" and b.dtype.kind in "US":
            return bool(np.array_equal(a, b))
        try:
            return bool(np.all(close(a, b, rtol, atol)))
        except (TypeError, ValueError):
            return bool(np.array_equal(a, b))
    return bool(np.all(close(a, b, rtol, atol)))


def mismatch_vs_ref(result_1d, ref_list, rtol=0.0, atol=0.0):
    """indices where a specified reference cell disagrees with the result"""
    bad = []
    res = np.asarray(result_1d)
    for i, r in enumerate(ref_list):
        if r is UNSPEC:
            continue
        got = res[..., i] if res.ndim else res
        if not np.all(close(np.asarray(got), np.asarray(r), rtol, atol)):
            bad.append(i)
    return bad


def groups_match(got, want) -> bool:
    got = np.asarray(got)
    want = np.asarray(want)
    if got.shape != want.shape:
        return False
    def stringy(a):
        return a.dtype.kind in "US" or (a.dtype.kind == "O" and any(isinstance(x, str) for x in a.reshape(-1)))

    if stringy(got) or stringy(want):
        return bool(np.array_equal(got.astype(str), want.astype(str)))
    if got.dtype.kind in "Mm" or want.dtype.kind in "Mm":
        return bool(np.array_equal(got, want, equal_nan=True)) if got.dtype == want.dtype else bool(
            np.array_equal(got.astype("datetime64[ns]"), want.astype("datetime64[ns]"))
        )
    return bool(np.all(close(got, want)))
