"""flox-verif: property-based testing / fuzzing harness for xarray-contrib/flox.

Importing this package pins where ``flox`` is imported from: ``$FLOX_VERIF_SRC`` when
set (scratch copies used for sensitivity experiments), otherwise ``/repo`` (the
current working tree).  The directory is prepended to ``sys.path`` so that it outranks
the editable-install finder in /venv.
"""

import os
import sys
import warnings

FLOX_SRC = os.environ.get("FLOX_VERIF_SRC") or "/repo"
if os.path.isdir(os.path.join(FLOX_SRC, "flox")) and FLOX_SRC not in sys.path[:1]:
    sys.path.insert(0, FLOX_SRC)

warnings.filterwarnings("ignore")
os.environ.setdefault("PYTHONWARNINGS", "ignore")

VERIF_DIR = os.path.dirname(os.path.dirname(os.path.abspath(__file__)))
