"""Building flox calls from case dicts (shared by most property modules)."""

from __future__ import annotations

import numpy as np
import pandas as pd

from .base import Res, run
from .codec import dec, unnum


def expected_obj(exp, by_dt="<i8"):
    """case 'expected' entry -> object handed to flox.

    None | {"labels": [...], "as": "array"|"list"|"index"} | {"range": k} | {"bins": [...], "closed": ..}
    """
    if exp is None:
        return None
    if "range" in exp:
        r = exp["range"]
        return pd.RangeIndex(*r) if isinstance(r, list) else pd.RangeIndex(r)
    if "bins" in exp:
        edges = [unnum(x) for x in exp["bins"]]
        if exp.get("as") == "interval":
            return pd.IntervalIndex.from_breaks(edges, closed=exp.get("closed", "right"))
        return np.array(edges, dtype=float)
    labs = [unnum(x) for x in exp["labels"]]
    how = exp.get("as", "array")
    if exp.get("cast") == "int":
        # requested labels given as integers although the label array is float (NaN = missing): realistic mismatch
        arr = np.array([int(x) for x in labs], dtype=np.int64)
    elif by_dt == "U":
        arr = np.array(labs, dtype=str)
    elif "M8" in by_dt or "m8" in by_dt:
        arr = np.array([int(x) for x in labs], dtype=np.int64).view(by_dt)
    elif "f" in by_dt:
        arr = np.array(labs, dtype=np.float64)
    else:
        arr = np.array(labs, dtype=np.int64)
    if how == "list":
        return list(arr) if arr.dtype.kind in "Mm" else list(arr.tolist())
    if how == "index":
        return pd.Index(arr)
    return arr


def fill_obj(fv):
    if fv is None:
        return None
    if fv == "NA":
        from flox import xrdtypes

        return xrdtypes.NA  # the dtype-appropriate missing-value sentinel (what xarray passes)
    return unnum(fv)


def reduce_kwargs(case) -> dict:
    kw = {"func": case["func"]}
    fk = {}
    if case.get("ddof") is not None:
        fk["ddof"] = case["ddof"]
    if case.get("q") is not None:
        q = case["q"]
        fk["q"] = [unnum(x) for x in q] if isinstance(q, list) else unnum(q)
    if fk:
        kw["finalize_kwargs"] = fk
    if case.get("expected") is not None:
        by_dt = case["by"]["dt"] if isinstance(case.get("by"), dict) else "<i8"
        kw["expected_groups"] = expected_obj(case["expected"], by_dt)
        if "bins" in case["expected"] and case["expected"].get("as") != "interval":
            kw["isbin"] = True
    if case.get("fill_value") is not None:
        kw["fill_value"] = fill_obj(case["fill_value"])
    if case.get("min_count") is not None:
        kw["min_count"] = case["min_count"]
    if case.get("sort") is not None:
        kw["sort"] = case["sort"]
    if case.get("axis") is not None:
        ax = case["axis"]
        kw["axis"] = tuple(ax) if isinstance(ax, list) else ax
    if case.get("dtype") is not None:
        kw["dtype"] = np.dtype(case["dtype"])
    return kw


def to_dask(arr, chunks, name=None):
    import dask.array as da

    chunks = tuple(tuple(c) for c in chunks)
    return da.from_array(arr, chunks=chunks, name=name) if name else da.from_array(arr, chunks=chunks)


def plan_kwargs(plan) -> dict:
    kw = {}
    if plan.get("method") is not None:
        kw["method"] = plan["method"]
    if plan.get("reindex") is not None:
        kw["reindex"] = plan["reindex"]
    return kw


def _finish(result, groups):
    """compute lazies together (sync), return numpy"""
    import dask

    lazies = [x for x in (result, *groups) if dask.is_dask_collection(x)]
    if lazies:
        with dask.config.set(scheduler="sync"):
            comp = dask.compute(result, *groups)
        result, groups = comp[0], comp[1:]
    return np.asarray(result), tuple(np.asarray(g) if not isinstance(g, pd.Index) else g.to_numpy() for g in groups)


def eager_reduce(arr, bys, kw, engine=None) -> Res:
    from flox.core import groupby_reduce

    def go():
        result, *groups = groupby_reduce(arr, *bys, engine=engine, **kw)
        return _finish(result, groups)

    return run(go)


def chunked_reduce(arr, bys, kw, plan, engine=None, compute=True) -> Res:
    """plan: method, reindex, chunks (per array axis), by_dask (bool), by_chunks, split_every"""
    import dask
    from flox.core import groupby_reduce

    def go():
        darr = to_dask(arr, plan["chunks"])
        dbys = []
        for i, b in enumerate(bys):
            if plan.get("by_dask"):
                bc = plan.get("by_chunks")
                if bc is None:
                    bc = [plan["chunks"][arr.ndim - b.ndim + ax] if b.shape[ax] != 1 else [1] for ax in range(b.ndim)]
                dbys.append(to_dask(b, bc))
            else:
                dbys.append(b)
        cfg = {}
        if plan.get("split_every") is not None:
            cfg["split_every"] = plan["split_every"]
        with dask.config.set(**cfg):
            result, *groups = groupby_reduce(darr, *dbys, engine=engine, **kw, **plan_kwargs(plan))
            if not compute:
                return result, groups
            return _finish(result, groups)

    return run(go)


def relayout(a, layout):
    """same values, different memory layout: Fortran order or a strided view into a larger buffer"""
    if layout == "F" and a.ndim >= 2:
        return np.asfortranarray(a)
    if layout == "strided" and a.ndim >= 1 and a.shape[-1] > 0:
        big = np.empty(a.shape[:-1] + (a.shape[-1] * 2,), dtype=a.dtype)
        big[..., ::2] = a
        big[..., 1::2] = a[..., ::-1] if a.dtype.kind not in "US" else a
        return big[..., ::2]
    return a


def arrays_of(case):
    arr = dec(case["arr"])
    by = case["by"]
    bys = [dec(b) for b in by] if isinstance(by, list) else [dec(by)]
    return arr, bys


__all__ = [
    "Res", "arrays_of", "chunked_reduce", "eager_reduce", "expected_obj", "fill_obj",
    "plan_kwargs", "reduce_kwargs", "relayout", "to_dask",
]  # fmt: skip
