"""Hypothesis building blocks (construction, not rejection).

All functions take ``draw`` and return plain JSON-able python data.
"""

from __future__ import annotations

from hypothesis import strategies as st

# dyadic alphabets: every partial sum / sum of squares / product is exact (DESIGN §3.1)
# 1 + 2**-30 is exact in float64 but not in float32: a float32 intermediate shows up as a wrong value
SUM_ALPHA = [-4.0, -2.5, -1.0, -0.5, 0.0, 0.5, 1.0, 1.0, 3.0, 1024.0, 1.0 + 2.0**-30]
PROD_ALPHA = [0.5, -0.5, 1.0, -1.0, 2.0, -2.0, 1.0, 0.0]
VAR_ALPHA = [-3.0, -1.0, 0.0, 0.5, 1.0, 2.0]  # no near-equal values: var/std would become ill-conditioned
INT_ALPHA = [-4, -2, -1, 0, 1, 1, 3, 7]
UINT_ALPHA = [0, 1, 1, 2, 3, 7]
PROD_INT_ALPHA = [-2, -1, 1, 1, 2, 0]
PROD_UINT_ALPHA = [1, 1, 2, 0, 1]

FLOAT_DTYPES = ["<f8", "<f4"]
INT_DTYPES = ["<i8", "<i4", "<i2", "|i1"]
UINT_DTYPES = ["<u8", "<u4", "<u2", "|u1"]


def func_family(func: str) -> str:
    f = func[3:] if func.startswith("nan") else func
    if f in ("prod",):
        return "prod"
    if f in ("var", "std"):
        return "var"
    return "sum"


def alphabet_for(func: str, dt: str):
    fam = func_family(func)
    kind = "f" if "f" in dt else ("u" if "u" in dt else ("b" if "b" in dt else "i"))
    if kind == "b":
        return [True, False]
    if kind == "f":
        alpha = {"prod": PROD_ALPHA, "var": VAR_ALPHA, "sum": SUM_ALPHA}[fam]
        if dt != "<f8":
            # float32 arrays only get values whose sums / squares are exact in 24 bits
            alpha = [x for x in alpha if float(x) * 2**10 == int(float(x) * 2**10)]
        return alpha
    if kind == "i":
        if fam != "prod" and dt == "<i8":
            return INT_ALPHA + [2**40 + 1, -(2**35)]  # beyond int32 / float32 precision
        return PROD_INT_ALPHA if fam == "prod" else INT_ALPHA
    if fam != "prod" and dt == "<u8":
        return UINT_ALPHA + [2**40 + 1]
    return PROD_UINT_ALPHA if fam == "prod" else UINT_ALPHA


def draw_values(draw, n: int, dt: str, func: str, *, nan_p=0.2, alphabet=None):
    """flat list of n JSON values for dtype dt; floats get NaN with prob nan_p"""
    alpha = alphabet if alphabet is not None else alphabet_for(func, dt)
    elems = st.sampled_from(alpha)
    vals = draw(st.lists(elems, min_size=n, max_size=n))
    if "f" in dt and nan_p > 0 and n > 0:
        style = draw(st.sampled_from(["none", "sprinkle", "sprinkle", "run"]))
        if style == "sprinkle":
            mask = draw(st.lists(st.booleans(), min_size=n, max_size=n))
            # thin the mask
            thin = draw(st.lists(st.booleans(), min_size=n, max_size=n))
            vals = ["nan" if (m and t) else v for v, m, t in zip(vals, mask, thin)]
        elif style == "run":
            a = draw(st.integers(0, n - 1))
            b = draw(st.integers(a, min(n - 1, a + 4)))
            vals = ["nan" if a <= i <= b else v for i, v in enumerate(vals)]
    return vals


LABEL_KINDS = ["int", "int", "negint", "bigint", "float", "floatint", "str", "u1", "u8", "i2", "f4"]


def label_pool(draw, kind: str, ngroups: int):
    """ngroups distinct label values (python), in a drawn (unsorted) order"""
    if kind == "int":
        pool = list(range(0, 12))
    elif kind == "negint":
        pool = [-7, -3, -1, 0, 2, 5, 9, 11, -12]
    elif kind == "bigint":
        pool = [10**9, 10**9 + 1, -(10**9), 3, 0, 2**40, -5, 77]
    elif kind in ("float", "f4"):
        pool = [-1.5, 0.0, 0.5, 1.0, 2.25, 3.0, 10.0, -8.0]
    elif kind == "floatint":
        # float labels that are mostly integral (the usual "integer codes with NaN for missing") plus fractional ones
        pool = [0.0, 1.0, 2.0, 3.0, 4.0, 0.5, 1.5, 2.5, -1.0]
    elif kind == "str":
        pool = ["a", "b", "c", "d", "e", "f", "g", "h"]
    elif kind == "datetime":
        day = 86400 * 10**9
        pool = [0, day, 2 * day, 3 * day + 1, -day, 10**18, 5, 365 * day]
    elif kind in ("u1", "u8", "i2"):
        # narrow / unsigned label dtypes (differences of unsigned labels wrap around)
        pool = [0, 1, 2, 3, 5, 9, 200, 250] if kind != "i2" else [-300, -1, 0, 1, 2, 5, 9, 300]
    else:
        raise KeyError(kind)
    if ngroups > len(pool):
        # many groups: extend the pool deterministically (numpy / pandas switch algorithms with the number of labels)
        k = ngroups - len(pool)
        if kind in ("int", "negint", "bigint", "i2"):
            pool = pool + [1000 + 3 * i for i in range(k)]
        elif kind in ("float", "floatint", "f4"):
            pool = pool + [20.0 + 0.5 * i for i in range(k)]
        elif kind == "str":
            pool = pool + [f"s{i:02d}" for i in range(k)]
        elif kind == "datetime":
            pool = pool + [10**15 + 10**9 * i for i in range(k)]
        elif kind == "u8":
            pool = pool + [300 + i for i in range(k)]
        else:  # u1: stay within the dtype
            pool = sorted(set(pool) | set(range(10, 10 + k)))
    perm = draw(st.permutations(pool))
    return list(perm[: min(ngroups, len(pool))])


def label_dtype(kind: str) -> str:
    return {"int": "<i8", "negint": "<i8", "bigint": "<i8", "float": "<f8", "floatint": "<f8", "str": "U", "u1": "|u1", "u8": "<u8",
            "i2": "<i2", "datetime": "<M8[ns]", "f4": "<f4"}[kind]


def draw_label_codes(draw, n: int, ngroups: int, style: str):
    """list of n codes in [0, ngroups) according to a layout style"""
    if n == 0:
        return []
    if style == "random":
        return draw(st.lists(st.integers(0, ngroups - 1), min_size=n, max_size=n))
    if style == "sorted":
        return sorted(draw(st.lists(st.integers(0, ngroups - 1), min_size=n, max_size=n)))
    if style == "runs":
        # consecutive runs, codes increase by one per run (resample-like), cycling
        codes, c = [], 0
        while len(codes) < n:
            run = draw(st.integers(1, 5))
            codes.extend([c % ngroups] * run)
            c += 1
        return codes[:n]
    if style == "periodic":
        period = draw(st.integers(1, max(1, ngroups)))
        off = draw(st.integers(0, period))
        return [(i + off) % period for i in range(n)]
    if style == "constant":
        c = draw(st.integers(0, ngroups - 1))
        return [c] * n
    if style == "blocks":
        # few long runs in random (not increasing) order
        codes = []
        while len(codes) < n:
            run = draw(st.integers(2, 7))
            codes.extend([draw(st.integers(0, ngroups - 1))] * run)
        return codes[:n]
    raise KeyError(style)


LABEL_STYLES = ["random", "random", "sorted", "runs", "periodic", "constant", "blocks"]  # "distinct" is opted into per check (C10, C12)


def draw_labels(draw, n: int, *, kinds=None, max_groups=6, missing=True, styles=None, allow_all_missing=False):
    """-> dict(spec=label array spec, pool=[labels], kind=...)"""
    kind = draw(st.sampled_from(kinds or LABEL_KINDS))
    ngroups = draw(st.integers(1, max_groups))
    pool = label_pool(draw, kind, ngroups)
    ngroups = len(pool)
    style = draw(st.sampled_from(styles or LABEL_STYLES))
    if style == "distinct":
        # every element is a group of its own (number of groups == length of the axis: flox has shortcuts for this)
        big = label_pool(draw, kind, max(n, 1))
        if len(big) >= n > 0:
            pool, ngroups = big, len(big)
            codes = list(range(n))
        else:
            style = "random"
    if style != "distinct":
        codes = draw_label_codes(draw, n, ngroups, style)
    vals = [pool[c] for c in codes]
    nmissing = 0
    if missing and kind in ("float", "floatint", "f4") and n > 0:
        mstyle = draw(st.sampled_from(["none", "few", "run", "none", "separators"]))
        if mstyle == "separators":
            # every change of label is hidden behind a missing label (comparisons with NaN are always False)
            for i in range(1, n):
                if vals[i] != vals[i - 1] and vals[i - 1] != "nan":
                    vals[i] = "nan"
        if mstyle == "few":
            k = draw(st.integers(1, max(1, n // 3)))
            idx = draw(st.lists(st.integers(0, n - 1), min_size=k, max_size=k))
            for i in idx:
                vals[i] = "nan"
        elif mstyle == "run":
            a = draw(st.integers(0, n - 1))
            b = draw(st.integers(a, min(n - 1, a + 5)))
            for i in range(a, b + 1):
                vals[i] = "nan"
        if not allow_all_missing and vals and all(v == "nan" for v in vals):
            vals[draw(st.integers(0, n - 1))] = pool[0]  # at least one labelled element
        nmissing = sum(1 for v in vals if v == "nan")
    elif missing and kind == "datetime" and n > 0 and draw(st.booleans()):
        for i in draw(st.lists(st.integers(0, n - 1), min_size=1, max_size=max(1, n // 3))):
            vals[i] = "nat"
        if not allow_all_missing and all(v == "nat" for v in vals):
            vals[0] = pool[0]
        nmissing = sum(1 for v in vals if v == "nat")
    return {
        "spec": {"dt": label_dtype(kind), "sh": [n], "v": vals},
        "pool": pool,
        "kind": kind,
        "style": style,
        "nmissing": nmissing,
    }


def draw_chunks(draw, n: int, *, max_blocks=12, styles=None):
    """a composition of n (tuple of positive ints summing to n)"""
    if n == 0:
        return [0]
    style = draw(st.sampled_from(styles or ["single", "ones", "uniform", "uniform", "arbitrary", "arbitrary"]))
    if style == "single" or n == 1:
        return [n]
    if style == "ones" and n <= max_blocks:
        return [1] * n
    if style in ("uniform", "ones"):
        lo = max(1, -(-n // max_blocks))
        k = draw(st.integers(lo, max(lo, min(n, 8))))
        out = [k] * (n // k)
        if n % k:
            out.append(n % k)
        return out
    # arbitrary composition via cut points
    ncuts = draw(st.integers(1, min(n - 1, max_blocks - 1)))
    cuts = sorted(set(draw(st.lists(st.integers(1, n - 1), min_size=ncuts, max_size=ncuts))))
    bounds = [0] + cuts + [n]
    return [b - a for a, b in zip(bounds[:-1], bounds[1:])]


def blocks_of(chunks):
    """list of (start, stop) per block"""
    out, s = [], 0
    for c in chunks:
        out.append((s, s + c))
        s += c
    return out
