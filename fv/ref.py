"""Reference model written from the property statements (not from flox).

Per-group plain NumPy on the members of each group *in original order*.
"""

from __future__ import annotations

import math
import warnings

import numpy as np

UNSPEC = object()  # cell the properties leave unspecified

NAN_FUNCS = {
    "nansum", "nanprod", "nanmean", "nanvar", "nanstd", "nanmax", "nanmin",
    "nanargmax", "nanargmin", "nanfirst", "nanlast", "nanmedian", "nanquantile",
}  # fmt: skip
ARG_FUNCS = {"argmax", "argmin", "nanargmax", "nanargmin"}
ORDER_STATS = {"median", "nanmedian", "quantile", "nanquantile"}
ALL_REDUCTIONS = [
    "sum", "nansum", "prod", "nanprod", "mean", "nanmean", "var", "nanvar", "std", "nanstd",
    "max", "nanmax", "min", "nanmin", "argmax", "nanargmax", "argmin", "nanargmin",
    "first", "nanfirst", "last", "nanlast", "count", "any", "all",
]  # fmt: skip


def is_missing_label(x) -> bool:
    if isinstance(x, (float, np.floating)):
        return math.isnan(x)
    if isinstance(x, (np.datetime64, np.timedelta64)):
        return bool(np.isnat(x))
    return x is None


def label_key(x):
    if isinstance(x, np.generic) and not isinstance(x, (np.datetime64, np.timedelta64)):
        return x.item()
    return x


def group_positions(labels_1d, requested=None):
    """dict label -> list of positions (first-appearance order); missing labels dropped.

    If ``requested`` is given only those labels get members (others contribute to no
    group) and every requested label is a key (possibly with no members)."""
    pos: dict = {}
    if requested is not None:
        for r in requested:
            pos[label_key(r)] = []
    for i, lab in enumerate(labels_1d):
        if is_missing_label(lab):
            continue
        k = label_key(lab)
        if requested is not None:
            if k in pos:
                pos[k].append(i)
        else:
            pos.setdefault(k, []).append(i)
    return pos


def _isnan(v):
    if v.dtype.kind == "f":
        return np.isnan(v)
    if v.dtype.kind in "Mm":
        return np.isnat(v)
    return np.zeros(v.shape, dtype=bool)


def reduce_members(m: np.ndarray, idx: np.ndarray, func: str, *, ddof=0, q=None):
    """NumPy reduction of one group's members ``m`` (original order); ``idx`` are their
    positions along the reduced axis of the whole array.  Returns a scalar or UNSPEC."""
    n = m.size
    nanmask = _isnan(m)
    hasnan = bool(nanmask.any())
    allnan = bool(nanmask.all()) if n else True
    with warnings.catch_warnings(), np.errstate(all="ignore"):
        warnings.simplefilter("ignore")
        if n == 0:
            return UNSPEC
        if func == "count":
            return int((~nanmask).sum())
        if func in ("sum", "prod", "mean", "max", "min"):
            return getattr(np, func)(m)
        if func in ("nansum", "nanprod", "nanmean"):
            return getattr(np, func)(m)
        if func in ("nanmax", "nanmin"):
            if allnan:
                return np.nan
            return getattr(np, func)(m)
        if func in ("var", "std", "nanvar", "nanstd"):
            valid = n if not func.startswith("nan") else int((~nanmask).sum())
            if not func.startswith("nan") and hasnan:
                return np.nan
            if valid <= ddof:
                # NumPy gives nan/inf/-0.0 here depending on the case: undefined
                return UNSPEC
            return getattr(np, func)(m.astype(np.float64) if m.dtype.kind != "f" else m, ddof=ddof)
        if func in ("argmax", "argmin"):
            if hasnan:
                return UNSPEC
            return int(idx[getattr(np, func)(m)])
        if func in ("nanargmax", "nanargmin"):
            if allnan:
                return UNSPEC
            return int(idx[getattr(np, func)(m)])
        if func == "first":
            return m[0]
        if func == "last":
            return m[-1]
        if func == "nanfirst":
            v = m[~nanmask]
            return v[0] if v.size else (np.nan if m.dtype.kind == "f" else UNSPEC)
        if func == "nanlast":
            v = m[~nanmask]
            return v[-1] if v.size else (np.nan if m.dtype.kind == "f" else UNSPEC)
        if func == "any":
            return bool(np.any(m))
        if func == "all":
            return bool(np.all(m))
        if func == "median":
            return np.median(m)
        if func == "nanmedian":
            return np.nan if allnan else np.nanmedian(m)
        if func == "quantile":
            return np.quantile(m.astype(np.float64), q, method="linear")
        if func == "nanquantile":
            if allnan:
                return np.full(np.shape(q), np.nan) if np.ndim(q) else np.nan
            return np.nanquantile(m.astype(np.float64), q, method="linear")
    raise KeyError(func)


def ref_1d(values_1d, labels_1d, func, *, requested=None, sort=True, ddof=0, q=None):
    """-> (keys, [result or UNSPEC per key], [n members], [n non-NaN members])"""
    pos = group_positions(labels_1d, requested)
    keys = list(pos)
    if sort:
        keys = sorted(keys)
    res, nmem, nvalid = [], [], []
    for k in keys:
        idx = np.asarray(pos[k], dtype=np.intp)
        m = values_1d[idx]
        nmem.append(len(idx))
        nvalid.append(int((~_isnan(m)).sum()) if len(idx) else 0)
        res.append(reduce_members(m, idx, func, ddof=ddof, q=q))
    return keys, res, nmem, nvalid
