"""Fresh-state oracle: evaluate one call in a process in which flox has been imported but no flox
function has ever been called.

A forkserver (one per harness worker) preloads flox and its heavy dependencies; every evaluation is
a new process forked from that pristine server, so module state, caches and the aggregation registry
are exactly those of a fresh interpreter right after ``import flox``.
"""

from __future__ import annotations

import multiprocessing as mp
import traceback

_CTX = None


def _ctx():
    global _CTX
    if _CTX is None:
        ctx = mp.get_context("forkserver")
        ctx.set_forkserver_preload(["fv", "numpy", "pandas", "dask.array", "xarray", "flox", "flox.xarray", "numpy_groupies"])
        _CTX = ctx
    return _CTX


def _child(conn, modname, fname, args):
    try:
        import importlib

        mod = importlib.import_module(modname)
        res = getattr(mod, fname)(*args)
        conn.send(("ok", res))
    except BaseException:  # noqa: BLE001
        conn.send(("err", traceback.format_exc()))
    finally:
        conn.close()


def fresh_call(modname: str, fname: str, *args, timeout=900):
    """run ``modname.fname(*args)`` in a fresh process; returns its (picklable) result"""
    ctx = _ctx()
    parent, child = ctx.Pipe(duplex=False)
    p = ctx.Process(target=_child, args=(child, modname, fname, args), daemon=True)
    p.start()
    child.close()
    try:
        if not parent.poll(timeout):
            p.kill()
            raise TimeoutError("fresh process timed out")
        kind, payload = parent.recv()
    finally:
        p.join(5)
        if p.is_alive():
            p.kill()
    if kind == "err":
        raise RuntimeError("fresh process failed:\n" + payload)
    return payload
