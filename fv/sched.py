"""Owned dask scheduler: executes a task graph in an order the harness controls and lets the
harness observe every task (inputs before/after, re-execution, pickling, invocation counting)."""

from __future__ import annotations

import functools
import hashlib
import random
from collections import deque
from dataclasses import fields, is_dataclass

import numpy as np

ORDERS = ["random", "min", "max", "dfs", "bfs"]


def _materialize(dsk):
    from dask._task_spec import convert_legacy_graph

    if hasattr(dsk, "__dask_graph__"):
        dsk = dsk.__dask_graph__()
    if not isinstance(dsk, dict):
        dsk = dict(dsk)
    return convert_legacy_graph(dsk)


def _flatten(keys):
    if isinstance(keys, list):
        for k in keys:
            yield from _flatten(k)
    else:
        yield keys


def _nest(keys, results):
    if isinstance(keys, list):
        return [_nest(k, results) for k in keys]
    return results[keys]


class _Hasher:
    def __init__(self, arrays_only=False):
        self._h = hashlib.sha1()
        self._fv_depth = 0
        self.arrays_only = arrays_only

    def update(self, b):
        self._h.update(b)

    def hexdigest(self):
        return self._h.hexdigest()


def _depth(h):
    return getattr(h, "_fv_depth", 0)


def digest(obj) -> str:
    """structural content digest (ndarray bytes+dtype+shape; recursive over containers / dataclasses /
    partials / generic objects, ignoring cached_property caches)"""
    h = _Hasher()
    _feed(h, obj)
    return h.hexdigest()


def _feed(h, obj):
    import pandas as pd

    if isinstance(obj, np.ndarray):
        h.update(b"nd")
        h.update(str(obj.dtype).encode())
        h.update(str(obj.shape).encode())
        if obj.dtype.kind == "O":
            for x in obj.reshape(-1):
                _feed(h, x)
        else:
            h.update(np.ascontiguousarray(obj).tobytes())
    elif isinstance(obj, pd.Index):
        h.update(b"idx")
        h.update(type(obj).__name__.encode())
        _feed(h, np.asarray(obj))
    elif isinstance(obj, dict):
        h.update(b"dict")
        for k in obj:
            h.update(repr(k).encode())
            _feed(h, obj[k])
    elif isinstance(obj, (list, tuple)):
        h.update(b"seq" + type(obj).__name__.encode())
        for x in obj:
            _feed(h, x)
    elif is_dataclass(obj) and not isinstance(obj, type):
        h.update(b"dc" + type(obj).__name__.encode())
        for f in fields(obj):
            h.update(f.name.encode())
            _feed(h, getattr(obj, f.name))
    elif isinstance(obj, (np.generic, int, float, str, bool, bytes)) or obj is None:
        if not getattr(h, "arrays_only", False):
            h.update(repr(obj).encode())
    elif isinstance(obj, functools.partial):
        h.update(b"partial")
        _feed(h, obj.func)
        _feed(h, obj.args)
        _feed(h, obj.keywords)
    elif isinstance(obj, (set, frozenset)):
        h.update(b"set")
        for x in sorted(obj, key=repr):
            _feed(h, x)
    elif callable(obj) and hasattr(obj, "__qualname__") and not hasattr(obj, "__self__"):
        if not getattr(h, "arrays_only", False):
            h.update(f"fn:{getattr(obj, '__module__', '')}.{obj.__qualname__}".encode())
    elif _depth(h) < 12 and (hasattr(obj, "__dict__") or hasattr(obj, "__slots__")):
        # generic object (dask Task / DataNode, Aggregation, toolz Compose, ...): its attributes, minus
        # functools.cached_property caches (pure memoisation, not state)
        h.update(b"obj" + type(obj).__qualname__.encode())
        cached = {n for n in dir(type(obj)) if isinstance(getattr(type(obj), n, None), functools.cached_property)}
        names = list(getattr(obj, "__dict__", {}).keys())
        for klass in type(obj).__mro__:
            for n in getattr(klass, "__slots__", ()) or ():
                if isinstance(n, str) and n not in names:
                    names.append(n)
        h._fv_depth = _depth(h) + 1
        try:
            for n in sorted(names):
                if n in cached or n.startswith("__") or n in ("_hash", "_token", "_repr"):
                    continue
                try:
                    v = getattr(obj, n)
                except Exception:  # noqa: BLE001
                    continue
                h.update(n.encode())
                _feed(h, v)
        finally:
            h._fv_depth -= 1
    else:
        h.update(repr(type(obj)).encode())
        if not getattr(h, "arrays_only", False):
            try:
                h.update(repr(obj).encode())
            except Exception:  # noqa: BLE001
                pass


def array_digest(obj) -> str:
    """digest of the array / Index data reachable from obj only (scalars and callables ignored)"""
    h = _Hasher(arrays_only=True)
    _feed(h, obj)
    return h.hexdigest()


class OwnedScheduler:
    """``dask.compute(x, scheduler=OwnedScheduler(...))``"""

    def __init__(self, order="random", seed=0, on_task=None, retain=False, max_calls=None):
        self.order = order
        self.rng = random.Random(seed)
        self.on_task = on_task
        self.retain = retain
        self.max_calls = max_calls
        self.calls = 0
        self.ntasks = 0
        self.trace = []
        self.retained = {}  # key -> (node, {dep: value}, output)
        self.shared_inputs = 0

    def __call__(self, dsk, keys, **kwargs):
        self.calls += 1
        if self.max_calls is not None and self.calls > self.max_calls:
            raise SchedulerInvoked(f"scheduler invoked {self.calls} time(s)")
        nodes = _materialize(dsk)
        wanted = list(_flatten(keys))
        # cull
        need, stack = set(), list(wanted)
        while stack:
            k = stack.pop()
            if k in need:
                continue
            need.add(k)
            stack.extend(nodes[k].dependencies)
        deps = {k: set(nodes[k].dependencies) for k in need}
        dependents = {k: set() for k in need}
        for k, ds in deps.items():
            for d in ds:
                dependents[d].add(k)
        self.shared_inputs += sum(1 for k in need if len(dependents[k]) >= 2)
        waiting = {k: len(ds) for k, ds in deps.items()}
        ready = sorted((k for k, c in waiting.items() if c == 0), key=_keystr)
        results = {}
        dq = deque(ready)
        while dq:
            k = self._pick(dq)
            node = nodes[k]
            inputs = {d: results[d] for d in deps[k]}
            if self.on_task is not None:
                # the hook owns the execution (it may digest before/after, re-execute, pickle ...)
                out = self.on_task(k, node, inputs)
            else:
                out = node(inputs)
            self.ntasks += 1
            self.trace.append(k)
            if self.retain:
                self.retained[k] = (node, inputs, out)
            results[k] = out
            newly = []
            for dd in dependents[k]:
                waiting[dd] -= 1
                if waiting[dd] == 0:
                    newly.append(dd)
            for x in sorted(newly, key=_keystr):
                dq.append(x)
        return _nest(keys, results)

    def _pick(self, dq):
        if self.order == "bfs":
            return dq.popleft()
        if self.order == "dfs":
            return dq.pop()
        items = sorted(dq, key=_keystr)
        if self.order == "min":
            k = items[0]
        elif self.order == "max":
            k = items[-1]
        else:
            k = items[self.rng.randrange(len(items))]
        dq.remove(k)
        return k


def _keystr(k):
    return repr(k)


class SchedulerInvoked(Exception):
    pass


def compute_with(collections, sched, optimize_graph=True):
    import dask

    return dask.compute(*collections, scheduler=sched, optimize_graph=optimize_graph)
