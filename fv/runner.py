"""CLI: run one property check (quick / thorough / replay).

Exit codes: 0 property held on everything explored (KNOWN-FINDING lines allowed);
1 at least one new violation (``VIOLATION property=<id> replay=<path>`` printed);
2 harness error (never a verdict).
"""

from __future__ import annotations

import argparse
import hashlib
import importlib
import itertools
import json
import multiprocessing as mp
import os
import sys
import time
import traceback
from collections import Counter

from . import VERIF_DIR
from .codec import abbreviate, canon, digest, sanitize

KNOWN_FILE = os.path.join(VERIF_DIR, "known_findings.json")


class _AbortShrink(BaseException):
    pass


class _StopRun(BaseException):
    pass


class _HarnessError(BaseException):
    def __init__(self, tb):
        self.tb = tb


class _Found(Exception):
    """raised inside the hypothesis body for the signature being shrunk"""


def _raise_found(msg):
    # single raise site: hypothesis keys failures on (type, file, line)
    raise _Found(msg)


# ----------------------------------------------------------------------------- known findings


def load_known(pid):
    if not os.path.exists(KNOWN_FILE) or os.environ.get("FV_IGNORE_KNOWN"):
        return []
    with open(KNOWN_FILE) as f:
        data = json.load(f)
    return [e for e in data.get("findings", []) if e.get("property") == pid and e.get("status") == "known"]


def sig_matches(pattern, sig) -> bool:
    if len(pattern) != len(sig):
        return False
    return all(p == "*" or str(p) == str(s) for p, s in zip(pattern, sig))


def is_known(known, sig) -> bool:
    return any(sig_matches(e["signature"], sig) for e in known)


# ----------------------------------------------------------------------------- per-process stats


class Stats:
    def __init__(self):
        self.evaluations = 0
        self.nontrivial = set()
        self.labels = Counter()
        self.samples = []
        self.excluded_known = Counter()
        self.excluded_reported = 0
        self.found = {}  # sig -> (size, case, msg)
        self.notes = []
        self.harness_error = None
        self.budget_hit = False

    def record(self, case, out):
        self.evaluations += 1
        for lab in out.labels:
            self.labels[lab] += 1
        if out.nontrivial:
            d = digest(case)
            if d not in self.nontrivial:
                self.nontrivial.add(d)
                # samples from different stages of the search (the first generated cases are the simplest ones)
                if len(self.nontrivial) in (2, 25, 120, 400):
                    self.samples.append(abbreviate(case))

    def export(self):
        return {
            "evaluations": self.evaluations,
            "nontrivial": self.nontrivial,
            "labels": dict(self.labels),
            "samples": self.samples,
            "excluded_known": dict(self.excluded_known),
            "excluded_reported": self.excluded_reported,
            "found": {"\x1f".join(k): v for k, v in self.found.items()},
            "notes": self.notes,
            "harness_error": self.harness_error,
            "budget_hit": self.budget_hit,
        }


def _execute(prop, case, stats):
    try:
        out = prop.execute(case)
    except (_AbortShrink, _StopRun):
        raise
    except BaseException:  # noqa: BLE001 - bug in the harness / oracle code itself
        raise _HarnessError(traceback.format_exc() + "\ncase=" + canon(case)[:4000])
    stats.record(case, out)
    return out


def _note_found(stats, sig, case, msg):
    size = len(canon(case))
    cur = stats.found.get(sig)
    if cur is None or size < cur[0]:
        stats.found[sig] = (size, case, msg)


def derive_seed(seed, pid, *parts) -> int:
    h = hashlib.sha256("/".join([str(seed), pid, *map(str, parts)]).encode()).digest()
    return int.from_bytes(h[:8], "big")


# ----------------------------------------------------------------------------- worker


def _start_cover():
    """developer aid (tools/cover.sh): FV_COVER_DIR=<dir> records which lines of flox the generated cases reach"""
    d = os.environ.get("FV_COVER_DIR")
    if not d:
        return None
    import coverage

    cov = coverage.Coverage(data_file=os.path.join(d, ".coverage"), data_suffix=True, branch=True, include=["*/flox/*"])
    cov.start()
    return cov


def worker(args):
    pid, tier, seed, widx, nworkers, deadline, known = args
    os.environ.setdefault("PYTHONHASHSEED", "0")
    stats = Stats()
    cov = _start_cover()
    try:
        prop = importlib.import_module(f"fv.props.{pid.lower()}")
        _worker_enum(prop, tier, widx, nworkers, deadline, known, stats)
        _worker_hyp(prop, pid, tier, seed, widx, nworkers, deadline, known, stats)
    except _HarnessError as e:
        stats.harness_error = e.tb
    except _StopRun:
        stats.budget_hit = True
    except BaseException:  # noqa: BLE001
        stats.harness_error = traceback.format_exc()
    finally:
        if cov is not None:
            cov.stop()
            cov.save()
    return stats.export()


def _triage(out, known, stats, reported):
    """return list of new (not known, not yet reported) violations"""
    new = []
    for v in out.violations:
        if is_known(known, v.sig):
            stats.excluded_known["|".join(v.sig)] += 1
        elif v.sig in reported:
            stats.excluded_reported += 1
        else:
            new.append(v)
    return new


def _worker_enum(prop, tier, widx, nworkers, deadline, known, stats):
    enum = getattr(prop, "enumerate_cases", None)
    if enum is None:
        return
    reported = set()
    for case in itertools.islice(enum(tier), widx, None, nworkers):
        if time.time() > deadline:
            stats.budget_hit = True
            stats.notes.append("enumeration truncated by wall guard")
            return
        out = _execute(prop, case, stats)
        for v in _triage(out, known, stats, set()):
            _note_found(stats, v.sig, case, v.msg)
            reported.add(v.sig)
    # greedy reduction of enumerated failures
    reducer = getattr(prop, "reduce_case", None)
    if reducer is not None:
        for sig in list(stats.found):
            size, case, msg = stats.found[sig]

            def still(c, sig=sig):
                o = prop.execute(c)
                return any(v.sig == sig for v in o.violations)

            try:
                small = reducer(case, still)
                stats.found[sig] = (len(canon(small)), small, msg)
            except Exception:  # noqa: BLE001
                stats.notes.append("reducer failed: " + traceback.format_exc()[-300:])


def _worker_hyp(prop, pid, tier, seed, widx, nworkers, deadline, known, stats):
    import hypothesis
    from hypothesis import HealthCheck, Phase, Verbosity, given, settings

    budget_fn = getattr(prop, "budget", None)
    budget = budget_fn(tier) if budget_fn else prop.BUDGET[tier]
    if budget <= 0:
        return
    shrink_cap = 500 if tier == "quick" else 4000
    max_sigs = 4
    reported = set(stats.found)
    remaining = budget
    rnd = 0
    strat = prop.strategy(tier)
    nfound0 = len(reported)
    while remaining > 0 and len(reported) - nfound0 < max_sigs and time.time() < deadline:
        state = {"target": None, "gen": 0, "shrinks": 0}

        def body(case):
            if state["target"] is None:
                if time.time() > deadline:
                    raise _StopRun()
                state["gen"] += 1
            else:
                state["shrinks"] += 1
                if state["shrinks"] > shrink_cap or time.time() > deadline + 120:
                    raise _AbortShrink()
            out = _execute(prop, case, stats)
            if state["target"] is None:
                new = _triage(out, known, stats, reported)
                if new:
                    state["target"] = new[0].sig
                    _note_found(stats, new[0].sig, case, new[0].msg)
                    _raise_found(new[0].msg)
            else:
                for v in out.violations:
                    if v.sig == state["target"]:
                        _note_found(stats, v.sig, case, v.msg)
                        _raise_found(v.msg)

        test = given(strat)(body)
        test = hypothesis.seed(derive_seed(seed, pid, widx, rnd))(test)
        test = settings(
            max_examples=remaining,
            database=None,
            deadline=None,
            derandomize=False,
            report_multiple_bugs=False,
            suppress_health_check=list(HealthCheck),
            phases=[Phase.generate, Phase.shrink],
            verbosity=Verbosity.quiet,
        )(test)
        try:
            test()
        except _AbortShrink:
            stats.notes.append("shrink capped")
        except _StopRun:
            stats.budget_hit = True
            remaining = 0
        except _HarnessError:
            raise
        except _Found:
            pass
        except Exception as e:  # noqa: BLE001 - Flaky etc.; the case is tracked by us
            if state["target"] is None:
                raise _HarnessError(traceback.format_exc())
            stats.notes.append(f"hypothesis raised {type(e).__name__} while shrinking")
        remaining -= max(state["gen"], 1)
        if state["target"] is None:
            break
        reported.add(state["target"])
        rnd += 1


# ----------------------------------------------------------------------------- replay


def run_case_file(prop, path):
    with open(path) as f:
        data = json.load(f)
    case = data["case"] if isinstance(data, dict) and "case" in data and "property" in data else data
    return case, prop.execute(case)


def replay(pid, path):
    prop = importlib.import_module(f"fv.props.{pid.lower()}")
    known = load_known(pid)
    case, out = run_case_file(prop, path)
    bad = False
    for v in out.violations:
        if is_known(known, v.sig):
            print(f"KNOWN-FINDING: property={pid} {' '.join(v.sig)} :: {v.msg}")
        else:
            print(f"violation signature={list(v.sig)} :: {v.msg}")
            bad = True
    if bad:
        print(f"VIOLATION property={pid} replay={path}")
        return 1
    print(f"replay ok: property={pid} nontrivial={out.nontrivial} labels={out.labels[:12]}")
    return 0


# ----------------------------------------------------------------------------- coverage-guided tier


def run_fuzz_tier(prop, pid, tier, seed, results):
    """thorough tier only, for modules that name a FUZZ_TARGET: 8 atheris shards (libFuzzer -seed / -runs pinned);
    violations come back as ordinary found-entries, statistics go to the evidence"""
    import shutil
    import subprocess
    import tempfile

    target = getattr(prop, "FUZZ_TARGET", None)
    deps = os.path.join(VERIF_DIR, ".deps")
    if tier != "thorough" or target is None:
        return None
    if not os.path.isdir(os.path.join(deps, "atheris")):
        return {"skipped": "atheris not installed (setup.sh could not install it)"}
    runs = int(getattr(prop, "FUZZ_RUNS", 60000))
    base = tempfile.mkdtemp(prefix=f"fvfuzz-{pid}-")
    info = {"engine": "atheris/libFuzzer", "shards": 8, "runs_per_shard": runs, "executions": 0, "decoded": 0, "nontrivial": 0}
    procs = []
    env = dict(os.environ, PYTHONPATH=deps + os.pathsep + VERIF_DIR + os.pathsep + os.environ.get("PYTHONPATH", ""))
    try:
        for i in range(8):
            out = os.path.join(base, f"shard{i}")
            corp = os.path.join(out, "corpus")
            os.makedirs(corp)
            cmd = [sys.executable, "-m", "fv.fuzz_planner", target, out, corp, f"-runs={runs}", f"-seed={seed * 8 + i + 1}", "-max_len=160",
                   "-len_control=0", "-print_final_stats=0"]  # fmt: skip
            procs.append((out, subprocess.Popen(cmd, cwd=VERIF_DIR, env=env, stdout=subprocess.DEVNULL, stderr=subprocess.DEVNULL)))
        for out, p in procs:
            try:
                p.wait(timeout=1500)
            except subprocess.TimeoutExpired:
                p.kill()
                info["timeout"] = True
            sp = os.path.join(out, f"stats-{target}.json")
            if os.path.exists(sp):
                st = json.load(open(sp))
                info["executions"] += st.get("runs", 0)
                info["decoded"] += st.get("decoded", 0)
                info["nontrivial"] += st.get("nontrivial", 0)
            vp = os.path.join(out, f"fuzz-{target}.json")
            if os.path.exists(vp):
                v = json.load(open(vp))
                key = "\x1f".join(v["signature"])
                results.append({"evaluations": 0, "nontrivial": set(), "labels": {}, "samples": [], "excluded_known": {}, "excluded_reported": 0,
                                "found": {key: (len(canon(v["case"])), v["case"], "[atheris] " + v["message"])}, "notes": [], "harness_error": None,
                                "budget_hit": False})  # fmt: skip
    finally:
        shutil.rmtree(base, ignore_errors=True)
    results.append({"evaluations": info["decoded"], "nontrivial": set(), "labels": {"fuzz-executions": info["executions"]}, "samples": [],
                    "excluded_known": {}, "excluded_reported": 0, "found": {}, "notes": [f"atheris: {info}"], "harness_error": None, "budget_hit": False})  # fmt: skip
    return info


# ----------------------------------------------------------------------------- main


def main(argv=None):
    ap = argparse.ArgumentParser(prog="check")
    ap.add_argument("pid")
    ap.add_argument("--tier", default=os.environ.get("VERIF_TIER", "quick"), choices=["quick", "thorough"])
    ap.add_argument("--replay")
    ap.add_argument("--workers", type=int, default=int(os.environ.get("VERIF_WORKERS", "16")))
    ap.add_argument("--scale", type=float, default=float(os.environ.get("VERIF_SCALE", "1")))
    a = ap.parse_args(argv)
    pid = a.pid.upper()
    os.environ["VERIF_SCALE"] = str(a.scale)
    if a.replay:
        try:
            return replay(pid, a.replay)
        except BaseException:  # noqa: BLE001
            traceback.print_exc()
            return 2

    try:
        seed = int(os.environ.get("VERIF_SEED", "0") or 0)
    except ValueError:
        seed = 0
    t0 = time.time()
    try:
        prop = importlib.import_module(f"fv.props.{pid.lower()}")
        import flox

        flox_source = os.path.dirname(os.path.abspath(flox.__file__))
    except BaseException:  # noqa: BLE001
        traceback.print_exc()
        print(f"HARNESS-ERROR property={pid} (import)")
        return 2

    known = load_known(pid)
    wall = getattr(prop, "WALL", {"quick": 420, "thorough": 3000})[a.tier]
    deadline = t0 + wall
    nworkers = min(a.workers, getattr(prop, "WORKERS", 16))

    # ---- 1. corpus + known witnesses (seconds-long replay tier)
    agg = Stats()
    violations = {}  # sig -> (size, case, msg)
    known_printed = set()
    corpus_dir = os.path.join(VERIF_DIR, "corpus", pid)
    corpus_files = sorted(os.path.join(corpus_dir, f) for f in os.listdir(corpus_dir)) if os.path.isdir(corpus_dir) else []
    corpus_replayed = 0
    try:
        for path in corpus_files:
            if not path.endswith(".json"):
                continue
            case, out = run_case_file(prop, path)
            agg.record(case, out)
            corpus_replayed += 1
            for v in out.violations:
                if is_known(known, v.sig):
                    agg.excluded_known["|".join(v.sig)] += 1
                    for e in known:
                        if sig_matches(e["signature"], v.sig) and e["signature"].__repr__() not in known_printed:
                            known_printed.add(e["signature"].__repr__())
                            print(f"KNOWN-FINDING: property={pid} {e.get('what', ' '.join(v.sig))}")
                else:
                    size = len(canon(case))
                    if v.sig not in violations or size < violations[v.sig][0]:
                        violations[v.sig] = (size, case, v.msg + f" [corpus file {os.path.basename(path)}]")
    except BaseException:  # noqa: BLE001
        traceback.print_exc()
        print(f"HARNESS-ERROR property={pid} (corpus replay)")
        return 2

    # ---- 2. parallel search
    ctx = mp.get_context("spawn")
    tasks = [(pid, a.tier, seed, i, nworkers, deadline, known) for i in range(nworkers)]
    results = []
    from concurrent.futures import ProcessPoolExecutor, as_completed

    # executor workers are not daemonic, so a worker may own child processes (fresh-process oracle)
    try:
        with ProcessPoolExecutor(nworkers, mp_context=ctx) as pool:
            futs = [pool.submit(worker, t) for t in tasks]
            for f in as_completed(futs):
                results.append(f.result())
    except BaseException:  # noqa: BLE001 - a worker process died (never a verdict)
        traceback.print_exc()
        print(f"HARNESS-ERROR property={pid} (worker pool)")
        return 2

    fuzz_info = run_fuzz_tier(prop, pid, a.tier, seed, results)
    harness_errors = [r["harness_error"] for r in results if r["harness_error"]]
    if harness_errors:
        print(harness_errors[0])
        print(f"HARNESS-ERROR property={pid} ({len(harness_errors)} worker(s))")
        return 2

    notes = []
    for r in results:
        agg.evaluations += r["evaluations"]
        agg.nontrivial |= r["nontrivial"]
        agg.labels.update(r["labels"])
        agg.samples.extend(r["samples"])
        agg.excluded_known.update(r["excluded_known"])
        agg.excluded_reported += r["excluded_reported"]
        agg.budget_hit |= r["budget_hit"]
        notes.extend(r["notes"])
        for k, (size, case, msg) in r["found"].items():
            sig = tuple(k.split("\x1f"))
            if sig not in violations or size < violations[sig][0]:
                violations[sig] = (size, case, msg)

    # known findings seen during the search but not via a witness file
    for key in agg.excluded_known:
        sig = tuple(key.split("|"))
        for e in known:
            if sig_matches(e["signature"], sig) and e["signature"].__repr__() not in known_printed:
                known_printed.add(e["signature"].__repr__())
                print(f"KNOWN-FINDING: property={pid} {e.get('what', key)}")

    # ---- 3. report
    replay_dir = os.path.join(VERIF_DIR, "replays")
    vio_paths = []
    if violations:
        os.makedirs(replay_dir, exist_ok=True)
    for sig, (size, case, msg) in sorted(violations.items()):
        h = hashlib.sha1("|".join(sig).encode()).hexdigest()[:10]
        path = os.path.join(replay_dir, f"{pid}-{h}.json")
        with open(path, "w") as f:
            json.dump({"property": pid, "signature": list(sig), "message": msg, "case": case}, f, indent=1)
        vio_paths.append(path)
        print(f"violation signature={list(sig)} :: {msg[:600]}")
        print(f"VIOLATION property={pid} replay={path}")

    wall_s = time.time() - t0
    samples = sorted(agg.samples, key=lambda c: -len(canon(c)))[:6]
    if not samples and corpus_replayed == 0:
        samples = []
    ev = {
        "property_id": pid,
        "tier": a.tier,
        "seed": seed,
        "level": "exploration",
        "wall_s": round(wall_s, 2),
        "violations": len(violations),
        "coverage": {
            "evaluations": agg.evaluations,
            "distinct_nontrivial": len(agg.nontrivial),
            "rule": prop.RULE,
            "samples": samples,
            "labels": dict(sorted(agg.labels.items())),
            "excluded_known": dict(agg.excluded_known),
            "excluded_reported": agg.excluded_reported,
            "corpus_replayed": corpus_replayed,
            "workers": nworkers,
            "flox_source": flox_source,
            "budget_hit_inconclusive": bool(agg.budget_hit),
            "notes": sorted(set(notes))[:20],
        },
        "assumptions": list(getattr(prop, "ASSUMPTIONS", [])),
    }
    exh = getattr(prop, "exhaustive_note", None)
    if exh is not None:
        note = exh(a.tier)
        if note:
            ev["coverage"]["exhaustive"] = not agg.budget_hit
            ev["coverage"]["exhaustive_bound"] = note
    os.makedirs(os.path.join(VERIF_DIR, "evidence"), exist_ok=True)
    with open(os.path.join(VERIF_DIR, "evidence", f"{pid}.json"), "w") as f:
        json.dump(sanitize(ev), f, indent=1, allow_nan=False)

    print(
        f"{pid} tier={a.tier} seed={seed} evaluations={agg.evaluations} "
        f"distinct_nontrivial={len(agg.nontrivial)} violations={len(violations)} "
        f"known_excluded={sum(agg.excluded_known.values())} wall={wall_s:.1f}s"
        + (" (wall guard hit: inconclusive for the remainder)" if agg.budget_hit else "")
    )
    return 1 if violations else 0


if __name__ == "__main__":
    try:
        code = main()
    except SystemExit:
        raise
    except BaseException:  # noqa: BLE001
        traceback.print_exc()
        print("HARNESS-ERROR (runner)")
        code = 2
    sys.exit(code)
