"""Shared types: Violation / Outcome, and the wrapper that turns a call into an outcome."""

from __future__ import annotations

import os
import traceback
from dataclasses import dataclass, field

REFUSALS = (ValueError, NotImplementedError, ImportError)


@dataclass
class Violation:
    sig: tuple
    msg: str

    def __post_init__(self):
        self.sig = tuple(str(s) for s in self.sig)


@dataclass
class Outcome:
    violations: list = field(default_factory=list)
    nontrivial: bool = False
    labels: list = field(default_factory=list)

    def add(self, sig, msg):
        self.violations.append(Violation(tuple(sig), msg))

    def label(self, *names):
        self.labels.extend(str(n) for n in names)


def flox_dir() -> str:
    import flox

    return os.path.dirname(os.path.abspath(flox.__file__))


def innermost_flox_frame(exc: BaseException) -> str:
    """name of the innermost function inside the flox package on the traceback"""
    fd = flox_dir()
    name = "<outside-flox>"
    for fs in traceback.extract_tb(exc.__traceback__):
        if os.path.abspath(fs.filename).startswith(fd):
            name = fs.name
    return name


@dataclass
class Res:
    """result of running flox code: kind in {"value", "refusal", "error"}"""

    kind: str
    value: object = None
    exc: BaseException | None = None

    @property
    def ok(self):
        return self.kind == "value"

    def errsig(self):
        return (type(self.exc).__name__, innermost_flox_frame(self.exc))

    def describe(self):
        if self.kind == "value":
            return "value"
        return f"{self.kind}:{type(self.exc).__name__}:{str(self.exc)[:160]}"


def run(fn, *a, **k) -> Res:
    """Run flox code; exceptions are *data* (refusal or error), never harness errors."""
    try:
        return Res("value", fn(*a, **k))
    except REFUSALS as e:  # documented refusal types
        return Res("refusal", exc=e)
    except Exception as e:  # noqa: BLE001 - everything else is an internal error
        return Res("error", exc=e)
