"""Coverage-guided fuzzing (atheris / libFuzzer) of the two pure planners, thorough tier only.

Target 1: flox.core.find_group_cohorts          (oracle: C09 validity predicate)
Target 2: flox.core._get_optimal_chunks_for_groups via rechunk_for_blockwise's chunk computation
          (oracle: C17 no-straddle postcondition for sequential labels)

Bytes are decoded into structured arguments (labels, chunk composition, flags), so the fuzzer reaches the
planner logic instead of dying in validation.  A failing input is written as an ordinary replay case.

usage (from /verif): PYTHONPATH=.deps /venv/bin/python -m fv.fuzz_planner <c09|c17> <outdir> -runs=N -seed=S
"""

from __future__ import annotations

import json
import os
import sys


def decode_c09(data: bytes):
    if len(data) < 4:
        return None
    flags, nsym, n = data[0], 1 + data[1] % 6, 2 + data[2] % 30
    body = data[3:]
    if len(body) < 2 * n:
        return None
    codes = [(b % (nsym + 1)) - 1 for b in body[:n]]
    if max(codes) < 0:
        codes[0] = 0
    cuts = [b % 3 == 0 for b in body[n : 2 * n - 1]]
    chunks, cur = [], 1
    for c in cuts:
        if c:
            chunks.append(cur)
            cur = 1
        else:
            cur += 1
    chunks.append(cur)
    return {"mode": "planner", "labels": {"dt": "<i8", "sh": [n], "v": codes}, "chunks": [chunks], "merge": bool(flags & 1),
            "exp_extra": [None, 0, 2][(flags >> 1) % 3]}  # fmt: skip


def decode_c17(data: bytes):
    if len(data) < 3:
        return None
    n = 2 + data[0] % 40
    body = data[1:]
    if len(body) < 2 * n:
        return None
    labels, cur = [], 0
    for b in body[:n]:
        if b % 4 == 0:
            cur += 1
        labels.append(cur * 2 + 1)
    cuts = [b % 3 == 0 for b in body[n : 2 * n - 1]]
    chunks, c = [], 1
    for x in cuts:
        if x:
            chunks.append(c)
            c = 1
        else:
            c += 1
    chunks.append(c)
    return {"mode": "blockwise", "labels": {"dt": "<i8", "sh": [n], "v": labels}, "shape": [n], "axis": 0, "chunks": [chunks],
            "flavour": "array", "neg_axis": False}  # fmt: skip


def main():
    which, outdir = sys.argv[1], sys.argv[2]
    argv = [sys.argv[0]] + sys.argv[3:]
    import atheris

    with atheris.instrument_imports(include=["flox"]):
        import flox.core  # noqa: F401

    import fv  # noqa: F401
    from fv.props import c09, c17

    prop, decode = (c09, decode_c09) if which == "c09" else (c17, decode_c17)
    stats = {"runs": 0, "decoded": 0, "nontrivial": 0}

    def dump():
        os.makedirs(outdir, exist_ok=True)
        with open(os.path.join(outdir, f"stats-{which}.json"), "w") as f:
            json.dump(stats, f)

    def target(data):
        stats["runs"] += 1
        if stats["runs"] % 2000 == 0:
            dump()  # libFuzzer leaves through _exit: no atexit
        case = decode(data)
        if case is None:
            return
        stats["decoded"] += 1
        out = prop.execute(case)
        stats["nontrivial"] += bool(out.nontrivial)
        if out.violations:
            os.makedirs(outdir, exist_ok=True)
            v = out.violations[0]
            with open(os.path.join(outdir, f"fuzz-{which}.json"), "w") as f:
                json.dump({"property": which.upper(), "signature": list(v.sig), "message": v.msg, "case": case}, f)
            with open(os.path.join(outdir, f"stats-{which}.json"), "w") as f:
                json.dump(stats, f)
            raise RuntimeError("violation: " + v.msg[:300])

    atheris.Setup(argv, target)
    try:
        atheris.Fuzz()
    finally:
        dump()


if __name__ == "__main__":
    main()
