"""Sensitivity experiments: run a check against a deliberately broken scratch copy of flox.

usage: /venv/bin/python tools/mut.py <mutation-name>|all [<Cxx> ...]  [--tier quick]
Scratch copies live under /var/tmp/flox-mut-<name> and are deleted afterwards.
"""

import json
import os
import shutil
import subprocess
import sys
import time

HERE = os.path.dirname(os.path.dirname(os.path.abspath(__file__)))

# name -> (properties expected to catch it, [(file, old, new), ...])
MUTATIONS = {
    "argreduce_local_index": (
        ["C06"],
        [("flox/core.py", 'results["intermediates"][1] = idx[newidx]', 'results["intermediates"][1] = newidx[-1]')],
    ),
    "nanlast_combine_first": (
        ["C06", "C04"],
        [("flox/aggregations.py", '    chunk="nanlast",\n    combine="nanlast",', '    chunk="nanlast",\n    combine="nanfirst",')],
    ),
    "argmax_combine_argmin": (
        ["C06", "C04"],
        [("flox/aggregations.py", 'chunk=("max", "argmax"),  # order is important\n    combine=("max", "argmax"),',
          'chunk=("max", "argmax"),  # order is important\n    combine=("max", "argmin"),')],
    ),
    "max_fill_zero": (
        ["C02", "C04"],
        [("flox/aggregations.py", 'max_ = Aggregation("max", chunk="max", combine="max", fill_value=dtypes.NINF',
          'max_ = Aggregation("max", chunk="max", combine="max", fill_value=0')],
    ),
    "prod_fill_zero": (
        ["C04", "C02"],
        [("flox/aggregations.py", 'prod = Aggregation("prod", chunk="prod", combine="prod", fill_value=1, final_fill_value=1)',
          'prod = Aggregation("prod", chunk="prod", combine="prod", fill_value=0, final_fill_value=1)')],
    ),
    "mincount_le": (
        ["C05", "C02"],
        [("flox/core.py", "count_mask = counts < min_count", "count_mask = counts <= min_count")],
    ),
    "falsy_fill_lost": (
        ["C05"],
        [("flox/core.py", '    fill_value = agg.fill_value["user"]\n    if min_count > 0:', '    fill_value = agg.fill_value["user"] or agg.fill_value[agg.name]\n    if min_count > 0:')],
    ),
    "isin_mask_dropped": (
        ["C05", "C01"],
        [("flox/core.py", "mask = ~np.isin(flat, expect) | isnull(flat) | (idx == len(expect))", "mask = isnull(flat) | (idx == len(expect))")],
    ),
    "scan_forget_left_state": (
        ["C10", "C03"],
        [("flox/aggregations.py", "lasts = concatenate([left, result]).last()", "lasts = result.last()")],
    ),
    "ffill_no_group_reset": (
        ["C10"],
        [("flox/aggregate_flox.py", "    mask[..., np.asarray(group_starts)] = False\n", "    mask[..., 0] = False\n")],
    ),
    "bfill_no_final_reverse": (
        ["C10"],
        [("flox/aggregations.py", "    preprocess=reverse,\n    finalize=reverse,\n", "    preprocess=reverse,\n")],
    ),
    "cohort_tree_reverse_inner": (
        ["C03", "C06"],
        [("flox/dask_array_ops.py", "        dummy = dict(i for i in enumerate(p) if i[0] in split_every)\n",
          "        dummy = dict((i, tuple(reversed(j)) if block_index is None else j) for i, j in enumerate(p) if i in split_every)\n")],
    ),
    "factorize_no_copy": (
        ["C13", "C14"],
        [("flox/core.py", "        idx = flat.copy()\n", "        idx = flat\n")],
    ),
    "nan_subst_inplace": (
        ["C13", "C14"],
        [("flox/aggregate_flox.py", "result = func(group_idx, np.where(isnull(array), fillna, array), *args, **kwargs)",
          "array[isnull(array)] = fillna; result = func(group_idx, array, *args, **kwargs)")],
    ),
    "issorted_on_dask_labels": (
        ["C12"],
        [("flox/core.py", "    if not_arg_reduce and (not is_duck_dask_array(by) and _issorted(by)):", "    if not_arg_reduce and _issorted(by):")],
    ),
    "cohorts_planner_on_dask_values": (
        ["C12"],
        [("flox/core.py", "    if nax == 1 and by_.ndim > 1 and expected_ is None:", "    if is_duck_dask_array(array) and array.size < 8 and bool(array.sum() == 0) or (nax == 1 and by_.ndim > 1 and expected_ is None):")],
    ),
    "token_without_finalize_kwargs": (
        ["C14"],
        [("flox/aggregations.py", "            self.finalize_kwargs,\n            self.min_count,\n", "")],
    ),
    "scan_preprocess_const_name": (
        ["C14"],
        [("flox/core.py", 'name="groupby-scan-preprocess-" + tokenize(by, array),', 'name="groupby-scan-preprocess",')],
    ),
    "init_agg_no_deepcopy": (
        ["C14"],
        [("flox/aggregations.py", "            agg_ = copy.deepcopy(AGGREGATIONS[func])", "            agg_ = copy.copy(AGGREGATIONS[func])")],
    ),
    "optimal_chunks_cache_on_shape": (
        ["C14", "C17"],
        [("flox/core.py", "@memoize\ndef _get_optimal_chunks_for_groups(chunks, labels):\n",
          "_OC_CACHE = {}\n\n\ndef _get_optimal_chunks_for_groups(chunks, labels):\n    key = (tuple(chunks), labels.shape, int(labels[-1]))\n    if key not in _OC_CACHE:\n        _OC_CACHE[key] = _get_optimal_chunks_for_groups_(chunks, labels)\n    return _OC_CACHE[key]\n\n\ndef _get_optimal_chunks_for_groups_(chunks, labels):\n")],
    ),
    "quantile_no_size_decrement": (
        ["C18"],
        [("flox/aggregate_flox.py", "    actual_sizes -= 1\n    virtual_index = q * actual_sizes", "    virtual_index = q * actual_sizes")],
    ),
    "quantile_allnan_fix_reverted": (
        ["C18"],
        [("flox/aggregate_flox.py", "        allnanmask = actual_sizes < 0\n", "        allnanmask = actual_sizes < -1\n")],
    ),
    "quantile_lerp_branch_removed": (
        ["C18"],
        [("flox/aggregate_flox.py", "    np.subtract(b, diff_b_a * (1 - t), out=out, where=t >= 0.5)\n", "")],
    ),
    "blockwise_sort_fix_reverted": (
        ["C16", "C05"],
        [("flox/core.py", "_unique(by_input[slc]) if sort else pd.unique(by_input[slc].reshape(-1)) for slc in slices", "_unique(by_input[slc]) for slc in slices")],
    ),
    "posthoc_argsort_groups_only": (
        ["C16", "C02"],
        [("flox/core.py", "                result = result[..., sorted_idx]\n", "")],
    ),
    "expected_np_sort_dropped": (
        ["C16", "C05"],
        [("flox/core.py", "                if sort:\n                    ex = np.sort(ex)\n", "")],
    ),
    "offset_labels_keep_missing": (
        ["C08"],
        [("flox/core.py", "    offset[labels == -1] = -1\n", "")],
    ),
    "axis_sort_fix_reverted": (
        ["C08"],
        [("flox/core.py", "axis_ = tuple(sorted(normalize_axis_tuple(axis, array.ndim)))", "axis_ = normalize_axis_tuple(axis, array.ndim)")],
    ),
    "auto_method_reindex_fix_reverted": (
        ["C08", "C02"],
        [("flox/core.py", "            and reindex.blockwise is True\n", "            and reindex.blockwise is None\n")],
    ),
    "digitize_right_flipped": (
        ["C07"],
        [("flox/core.py", "                right=right,\n", "                right=not right,\n")],
    ),
    "within_bins_strict": (
        ["C07"],
        [("flox/core.py", "within_bins = flat <= bins.max() if right else flat < bins.max()", "within_bins = flat < bins.max()")],
    ),
    "ravel_mask_dropped": (
        ["C07"],
        [("flox/core.py", "    group_idx[nan_by_mask] = -1\n    return group_idx", "    return group_idx")],
    ),
    "reindex_full_like_reverted": (
        ["C12", "C07"],
        [("flox/core.py", "reindexed = np.full_like(array, fill_value, shape=shape)", "reindexed = np.full(shape, fill_value, dtype=array.dtype)")],
    ),
    "merged_cohort_first_chunks": (
        ["C09"],
        [("flox/core.py", "        chunk = tuple(set(itertools.chain(*allchunks)))\n", "        chunk = tuple(label_chunks[cohort[0]].tolist())\n")],
    ),
    "blockwise_when_le2": (
        ["C09", "C02"],
        [("flox/core.py", "if bitmask.shape[CHUNK_AXIS] == 1 or (chunks_per_label == 1).all():", "if bitmask.shape[CHUNK_AXIS] == 1 or (chunks_per_label <= 2).all():")],
    ),
    "cohort_name_fix_reverted": (
        ["C09", "C02"],
        [("flox/core.py", 'name = "groupby-cohort-" + tokenize(array, index, reindexer)', 'name = "groupby-cohort-" + tokenize(array, index)')],
    ),
    "subset_slice_drops_last": (
        ["C09", "C02"],
        [("flox/core.py", "                stop = i[-1] + 1\n", "                stop = i[-1] + (1 if len(i) < 3 else 0)\n")],
    ),
    "optimal_chunks_off_by_one": (
        ["C17"],
        [("flox/core.py", "            newchunkidx.append(l + 1)\n", "            newchunkidx.append(l if l > newchunkidx[-1] + 1 else l + 1)\n")],
    ),
    "cohorts_ignore_oldbreaks_always": (
        ["C17"],
        [("flox/core.py", "if (not ignore_old_chunks and idx in oldbreaks) or (counter >= chunksize and not next_break_is_close):",
          "if (not ignore_old_chunks and idx in oldbreaks and counter > 1) or (counter >= chunksize and not next_break_is_close):")],
    ),
    "xr_rechunk_no_copy": (
        ["C17", "C14"],
        [("flox/xarray.py", "    obj = obj.copy(deep=True)\n", "    obj = obj if isinstance(obj, xr.Dataset) else obj.copy(deep=True)\n")],
    ),
    "final_astype_dropped": (
        ["C11"],
        [("flox/core.py", '    finalized[agg.name] = finalized[agg.name].astype(agg.dtype["final"], copy=False)\n    return finalized', "    return finalized")],
    ),
    "count_final_int32": (
        ["C11"],
        [("flox/aggregations.py", "    final_fill_value=0,\n    dtypes=np.intp,\n    final_dtype=np.intp,\n", "    final_fill_value=0,\n    dtypes=np.intp,\n    final_dtype=np.int32,\n")],
    ),
    "cohorts_out_chunks_len_blocks": (
        ["C11"],
        [("flox/core.py", "out_chunks[axis[-1]] = tuple(len(c) for c in chunks_cohorts.values())", "out_chunks[axis[-1]] = tuple(len(c) for c in chunks_cohorts.keys())")],
    ),
    "partial_axis_guard_deleted": (
        ["C19", "C08"],
        [("flox/core.py", '        if nax != by_.ndim and method in ["blockwise", "cohorts"]:', '        if False and nax != by_.ndim and method in ["blockwise", "cohorts"]:')],
    ),
    "arg_blockwise_guard_deleted": (
        ["C19", "C06"],
        [("flox/core.py", '        if _is_arg_reduction(agg) and method == "blockwise" and not single_block:', '        if False and _is_arg_reduction(agg) and method == "blockwise" and not single_block:')],
    ),
    "collapse_blocks_fix_reverted": (
        ["C19"],
        [("flox/core.py", "((1,),) * (len(axis) - 1) + group_chunks", "((1,) * (len(axis) - 1),) + group_chunks")],
    ),
    "cohorts_dask_labels_guard_deleted": (
        ["C19"],
        [("flox/core.py", '    if method == "cohorts" and any_by_dask:\n        raise ValueError', '    if False and method == "cohorts" and any_by_dask:\n        raise ValueError')],
    ),
    "restore_dim_order_noop": (
        ["C15"],
        [("flox/xarray.py", "    new_order = sorted(result.dims, key=lookup_order)\n    return result.transpose(*new_order)", "    return result")],
    ),
    "skipna_false_ignored": (
        ["C15"],
        [("flox/xarray.py", '        if skipna or (skipna is None and isinstance(func, str) and array.dtype.kind in "cfO"):', '        if skipna is False or skipna or (skipna is None and isinstance(func, str) and array.dtype.kind in "cfO"):')],
    ),
    "grouper_attrs_dropped": (
        ["C15"],
        [("flox/xarray.py", "        if keep_attrs:\n            actual[name].attrs = by_.attrs\n", "")],
    ),
    "broadcast_size_one_wrong_axis": (
        ["C15"],
        [("flox/xarray.py", "        axis = [core_dims[0].index(d) for d in core_dims[0] if d not in dims]", "        axis = [len(core_dims[0]) - 1 - core_dims[0].index(d) for d in core_dims[0] if d not in dims]")],
    ),
    "nanmin_combine_min": (
        ["C04"],
        [("flox/aggregations.py", '    chunk="nanmin",\n    combine="nanmin",', '    chunk="nanmin",\n    combine="min",')],
    ),
    "stable_sort_dropped": (
        ["C01", "C06"],
        [("flox/aggregate_flox.py", 'perm = group_idx.argsort(kind="stable")', "perm = group_idx.argsort()[::-1]; perm = perm[np.argsort(group_idx[perm], kind='quicksort')]")],
    ),
    "nansum_no_nan_subst": (
        ["C01"],
        [("flox/aggregate_flox.py", "nansum = partial(_nan_grouped_op, func=sum, fillna=0)", "nansum = partial(_nan_grouped_op, func=sum, fillna=np.nan)")],
    ),
    "var_finalize_no_div": (
        ["C04", "C02"],
        [("flox/aggregations.py", "result = (sumsq - (sum_**2 / count)) / (count - ddof)", "result = (sumsq - (sum_**2 / np.maximum(count, 2))) / (count - ddof)")],
    ),
}


def apply(name):
    props, edits = MUTATIONS[name]
    dst = f"/var/tmp/flox-mut-{name}"
    shutil.rmtree(dst, ignore_errors=True)
    os.makedirs(dst)
    shutil.copytree("/repo/flox", os.path.join(dst, "flox"), ignore=shutil.ignore_patterns("__pycache__"))
    for rel, old, new in edits:
        p = os.path.join(dst, rel)
        s = open(p).read()
        if s.count(old) != 1:
            raise SystemExit(f"mutation {name}: pattern occurs {s.count(old)} times in {rel}")
        open(p, "w").write(s.replace(old, new))
    return dst, props


def run(name, only=None, tier="quick"):
    dst, props = apply(name)
    res = {}
    try:
        for pid in only or props:
            t = time.time()
            env = dict(os.environ, FLOX_VERIF_SRC=dst)
            r = subprocess.run(["./check", pid, "--tier", tier], cwd=HERE, env=env, capture_output=True, text=True)
            vio = [l for l in r.stdout.splitlines() if l.startswith("violation signature")]
            res[pid] = {"exit": r.returncode, "wall": round(time.time() - t, 1), "first": vio[:2]}
            print(f"[{name}] {pid}: exit={r.returncode} wall={res[pid]['wall']}s {'DETECTED' if r.returncode == 1 else 'MISSED' if r.returncode == 0 else 'HARNESS-ERROR'}")
            for v in vio[:2]:
                print("     ", v[:300])
            if r.returncode == 2:
                print(r.stdout[-1500:])
    finally:
        shutil.rmtree(dst, ignore_errors=True)
        # evidence files were rewritten by the mutated runs: restore from git
        subprocess.run(["git", "checkout", "--", "evidence"], cwd=HERE, capture_output=True)
    return res


if __name__ == "__main__":
    args = [a for a in sys.argv[1:] if not a.startswith("--")]
    tier = "thorough" if "--tier=thorough" in sys.argv else "quick"
    names = list(MUTATIONS) if args[0] == "all" else [args[0]]
    allres = {}
    for n in names:
        allres[n] = run(n, args[1:] or None, tier)
    print(json.dumps(allres, indent=1))
