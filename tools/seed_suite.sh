#!/bin/bash
# usage: tools/seed_suite.sh <name> <patch.diff>  -> runs the repository's suite in a scratch worktree with the patch applied
# (thread pools limited so that several of these can run side by side); prints the last line of run_suite_in.py
name=$1; patch=$2
wt=/var/tmp/seedsuite-$name
git -C /repo worktree remove --force $wt >/dev/null 2>&1; rm -rf $wt
git -C /repo worktree add --detach $wt HEAD >/dev/null 2>&1 || { echo "worktree failed"; exit 2; }
git -C $wt apply $patch || { echo "patch does not apply"; git -C /repo worktree remove --force $wt; exit 2; }
DASK_NUM_WORKERS=2 OMP_NUM_THREADS=1 OPENBLAS_NUM_THREADS=1 MKL_NUM_THREADS=1 NUMBA_NUM_THREADS=2 \
  /venv/bin/python "$(dirname "$0")/run_suite_in.py" $wt | tail -5
code=${PIPESTATUS[0]}
git -C /repo worktree remove --force $wt >/dev/null 2>&1; rm -rf $wt
exit $code
