"""Verify a seeded change produced by a sub-agent and run checks against it.

usage: /venv/bin/python tools/seed_verify.py <Cxx-name> <dir with patch.diff, demo.py, meta.json> [--suite] [--checks C06,C03]

1. scratch worktree of /repo HEAD under /var/tmp/seedv-<name>; `git apply patch.diff`
2. demo.py must exit 1 against the patched tree and 0 against /repo
3. (--suite) the repository's test-suite must not lose a baseline-passing test in the patched tree
4. the listed checks (default: the property named in meta.json) are run with FLOX_VERIF_SRC=<patched tree>
The worktree is removed afterwards.  Prints a JSON summary.
"""

import json
import os
import shutil
import subprocess
import sys

HERE = os.path.dirname(os.path.dirname(os.path.abspath(__file__)))


def sh(cmd, **kw):
    return subprocess.run(cmd, capture_output=True, text=True, **kw)


def main():
    name, src = sys.argv[1], os.path.abspath(sys.argv[2])
    do_suite = "--suite" in sys.argv
    checks = None
    for a in sys.argv:
        if a.startswith("--checks="):
            checks = a.split("=", 1)[1].split(",")
    mpath = os.path.join(src, "meta.json")
    meta = json.load(open(mpath)) if os.path.exists(mpath) else {}
    prop = meta.get("property", name[:3])
    checks = checks or [prop]
    wt = f"/var/tmp/seedv-{name}"
    sh(["git", "-C", "/repo", "worktree", "remove", "--force", wt])
    shutil.rmtree(wt, ignore_errors=True)
    r = sh(["git", "-C", "/repo", "worktree", "add", "--detach", wt, "HEAD"])
    assert r.returncode == 0, r.stderr
    out = {"name": name, "property": prop}
    try:
        r = sh(["git", "-C", wt, "apply", "--3way", os.path.join(src, "patch.diff")])
        if r.returncode != 0:
            r = sh(["git", "-C", wt, "apply", os.path.join(src, "patch.diff")])
        out["patch_applies"] = r.returncode == 0
        if r.returncode != 0:
            out["apply_error"] = r.stderr[-500:]
            print(json.dumps(out, indent=1))
            return
        env = dict(os.environ, PYTHONPATH=wt)
        d1 = sh(["/venv/bin/python", os.path.join(src, "demo.py")], cwd="/tmp", env=env)
        d0 = sh(["/venv/bin/python", os.path.join(src, "demo.py")], cwd="/tmp", env=dict(os.environ, PYTHONPATH="/repo"))
        out["demo_exit_with_change"] = d1.returncode
        out["demo_exit_without_change"] = d0.returncode
        out["demo_tail_with_change"] = d1.stdout[-300:]
        if do_suite:
            s = sh(["/venv/bin/python", os.path.join(HERE, "tools", "run_suite_in.py"), wt])
            out["suite"] = s.stdout.strip().splitlines()[-3:]
            out["suite_exit"] = s.returncode
        res = {}
        for pid in checks:
            c = sh(["./check", pid, "--tier", "quick"], cwd=HERE, env=dict(os.environ, FLOX_VERIF_SRC=wt))
            vio = [l[:400] for l in c.stdout.splitlines() if l.startswith("violation signature")]
            res[pid] = {"exit": c.returncode, "violations": vio[:4], "summary": c.stdout.strip().splitlines()[-1][:300] if c.stdout.strip() else ""}
        out["checks"] = res
        sh(["git", "checkout", "--", "evidence"], cwd=HERE)
    finally:
        sh(["git", "-C", "/repo", "worktree", "remove", "--force", wt])
        shutil.rmtree(wt, ignore_errors=True)
    print(json.dumps(out, indent=1))


if __name__ == "__main__":
    main()
