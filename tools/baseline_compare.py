"""Run the repo's test suite (guard off) and compare with /root/.vp/BASELINE.json stable_pass."""
import json, subprocess, sys, xml.etree.ElementTree as ET, os, tempfile
out = sys.argv[1] if len(sys.argv) > 1 else os.path.join(tempfile.gettempdir(), "flox_baseline.junit.xml")
base = json.load(open("/root/.vp/BASELINE.json"))
cmd = base["cmd"].replace("<file>", out)
subprocess.run(cmd, shell=True, stdout=subprocess.DEVNULL, stderr=subprocess.DEVNULL)
passed = set()
for tc in ET.parse(out).getroot().iter("testcase"):
    if not any(ch.tag in ("failure", "error", "skipped") for ch in tc):
        passed.add(f"{tc.get('classname')}::{tc.get('name')}")
want = set(base["stable_pass"])
missing = sorted(want - passed)
print(f"stable_pass={len(want)} passed_now={len(passed)} missing={len(missing)}")
for m in missing[:40]:
    print("  MISSING", m)
sys.exit(1 if missing else 0)
