#!/bin/bash
# usage: [CHECKS="C03 C07"] tools/sweep.sh <tier> <seed> [<seed> ...]   -> one line per (check, seed)
cd "$(dirname "$0")/.."
tier=$1; shift
for seed in "$@"; do
  for pid in ${CHECKS:-$(seq -f C%02g 1 20)}; do
    start=$(date +%s)
    out=$(VERIF_SEED=$seed ./check $pid --tier $tier 2>&1)
    code=$?
    echo "seed=$seed $pid exit=$code wall=$(( $(date +%s) - start ))s :: $(echo "$out" | grep -c '^VIOLATION') violation(s) :: $(echo "$out" | tail -1 | cut -c1-160)"
    if [ $code -ne 0 ]; then echo "$out" | grep "^violation" | cut -c1-600 | head -5; fi
  done
done
