#!/bin/bash
# regenerate every evidence file by a real quick run in /verif against /repo (VERIF_SEED=0), then validate them
cd "$(dirname "$0")/.."
for i in $(seq -w 1 20); do
  p=C$i
  out=$(VERIF_SEED=0 ./check $p --tier quick 2>&1); code=$?
  echo "$p exit=$code :: $(echo "$out" | tail -1 | cut -c1-150)"
done
python3-vt - <<'PY'
import json, jsonschema, glob
sch = json.load(open('/root/.vp/EVIDENCE.schema.json'))
for f in sorted(glob.glob('evidence/C*.json')):
    e = json.load(open(f))
    jsonschema.validate(e, sch)
    c = e['coverage']
    print(f, e['tier'], c['evaluations'], c['distinct_nontrivial'], 'inconclusive' if c.get('budget_hit_inconclusive') else 'ok', c.get('flox_source'))
jsonschema.validate(json.load(open('MANIFEST.json')), json.load(open('/root/.vp/MANIFEST.schema.json')))
print("all valid")
PY
