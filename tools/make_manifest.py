"""Regenerate /verif/MANIFEST.json from the table below (run: /venv/bin/python tools/make_manifest.py)."""

import json
import os

HERE = os.path.dirname(os.path.dirname(os.path.abspath(__file__)))

def C(technique, text, note, ref):
    return dict(technique=technique, text=text, note=note, ref=ref)


CHECKS = {
    "C01": C("Hypothesis-generated eager calls vs independent per-group NumPy reference model, all engines",
             "Generated-input exploration: every accepted engine must equal a per-group NumPy model on generated values/labels "
             "(dyadic alphabets => exact comparison). Bounds: n<=24 (40 thorough), <=6 groups, 0-2 batch dims.",
             "Trusts NumPy reductions as oracle; numba engine sampled sparsely (JIT cost).", "§4 C01"),
    "C02": C("Hypothesis differential: chunked (method x reindex x chunking x dask labels) vs eager",
             "Generated-input differential exploration: computed chunked result and groups must be identical to the eager call "
             "for drawn plans over {None, map-reduce, cohorts, blockwise} x reindex {None, True, False}, arbitrary chunkings of "
             "every axis, numpy or independently chunked dask labels.",
             "Eager result is the reference (C01 ties it to NumPy); chunk sizes <= 8, <= 8 blocks per axis.", "§4 C02"),
    "C03": C("Hypothesis metamorphic sweep: every split_every x sync/threads/owned-scheduler topological orders vs baseline",
             "Generated cases with 3-16 blocks; systematic sweep of split_every (all tree depths) and of task orders under a "
             "harness-owned dask scheduler (random, min/max key, DFS, BFS), threaded and synchronous schedulers, optimised and "
             "unoptimised graphs; every run must equal the single-level synchronous baseline; scans equal the eager scan.",
             "Preemptive interleavings are not explored (reduced to task purity, C13).", "§4 C03"),
    "C04": C("Exhaustive small-scope enumeration (all value sequences x all 3-way splits x plans) + Hypothesis user-Aggregation programs",
             "For every block-stage aggregation: all ordered sequences up to length 4 (5 thorough) over an alphabet with negatives, "
             "0, NaN, +-inf, all ordered 3-way splits incl. empty parts, three plans with two combine levels: merged == one block "
             "== eager == NumPy. User Aggregation objects from a grammar obey the same law.",
             "arg-reductions asserted on NaN-free rows only; var/std tolerance 1e-12.", "§4 C04"),
    "C05": C("Hypothesis vs slot reference model (expected_groups relation x fill_value x min_count x engines x plans) + metamorphic twin",
             "Generated exploration against an explicit slot model: one slot per requested label in requested order, absent and "
             "min_count-masked slots hold the fill verbatim, other slots equal the NumPy reference; eager and chunked.",
             "Present-but-all-NaN groups with a fill and min_count=None are unspecified and not asserted.", "§4 C05"),
    "C06": C("Hypothesis + exhaustive small scope vs global-position reference, ties/NaNs placed at chunk borders",
             "Generated and exhaustively enumerated arrays with ties and NaNs on both sides of chunk borders; arg*/first/last "
             "family must return whole-array positions/members for every chunking, method and split_every.",
             "arg* asserted on NaN-free groups (nanarg*: not all-NaN), as the property states.", "§4 C06"),
    "C10": C("Hypothesis + exhaustive small scope vs per-group sequential NumPy scans; mirror and twin metamorphic relations",
             "Generated arrays with NaN runs across chunk borders and interleaved groups; nancumsum/ffill/bfill eager and chunked "
             "(1-12 blocks) equal the per-group sequential scan; bfill mirrors ffill; missing labels do not disturb others.",
             "Positions with missing labels are only held to eager == chunked.", "§4 C10"),
    "C12": C("Hypothesis over configuration product with poisoned inputs and a zero-quota counting scheduler",
             "API calls are made on inputs whose every block raises when evaluated, under a scheduler that refuses any invocation: "
             "any evaluation during graph construction is caught; lazy return type checked; compute-time label->value mapping "
             "equals the eager mapping for dask labels without expected_groups.",
             "Non-object label dtypes.", "§4 C12"),
    "C13": C("Hypothesis graphs executed by an instrumented owned scheduler (digests, double execution, cloudpickle, late re-execution)",
             "Every task of generated reduction/scan graphs is executed with input digests taken before/after, executed twice, "
             "executed from a cloudpickle clone; user arrays' digests compared; drawn tasks re-executed after completion; "
             "threaded runs compared.",
             "Purity judged by content digests of arrays; benign memoisation inside the per-call Aggregation copy is not state.", "§4 C13"),
    "C14": C("Hypothesis model-based call histories with fresh-process oracle + co-computation pairs/triples",
             "Generated call sequences over a shared argument pool with invariants after every step (argument digests, registry "
             "snapshot), last/drawn calls re-evaluated first in a fresh process; pairs/triples of lazy results differing in one "
             "ingredient computed together in both orders vs alone.",
             "Histories <= 8 steps quick / 20 thorough; fresh state = process forked from a pristine 'import flox' server.", "§4 C14"),
    "C18": C("Hypothesis + exhaustive small scope vs numpy.quantile/nanquantile(method='linear')",
             "Generated finite+NaN arrays, all group sizes incl. all-NaN groups, scalar/vector q, engines, batch dims, chunked "
             "layouts (batch-only, group-aligned, straddling => must refuse) against NumPy's linear quantiles.",
             "rtol=atol=1e-12 (float32 1e-6); infinities excluded per the property.", "§4 C18"),
    "C20": C("Hypothesis vs exact reference (Python ints / NumPy) for +-inf extremes, narrow-int totals, var/std eager vs chunked",
             "Generated arrays with infinite extremes, narrow-integer data whose totals exceed the input width, and non-dyadic "
             "float data for var/std; every engine and strategy against exact references and eager-vs-chunked closeness.",
             "Totals kept < 2**53; var tolerance 1e-9 rel + 1e-12 abs on the variance.", "§4 C20"),
    "C07": C("Hypothesis vs tuple-key reference with pandas.cut bin membership; provenance weights",
             "Generated 1-3 groupers (categorical / binned, broadcasting shapes, values on and around edges, NaN, +-inf), eager and "
             "chunked, numpy and dask groupers: every cell equals the reduction over elements with that label tuple; dropped "
             "elements contribute nowhere; returned labels equal the requested ones.",
             "Bin membership oracle is pandas.cut; datetime bin labels excluded (baseline-broken in this environment).", "§4 C07"),
    "C08": C("Hypothesis vs slice-by-slice 1-D reference over every axis subset / order / sign; eager vs chunked",
             "Generated 1-4-D arrays with 1-3-D labels, every non-empty axis subset in any order and sign, uneven missing labels: "
             "each kept index equals the 1-D reduction of its slice; shape = batch + kept dims + group axis; chunked along any axis.",
             "arg-reductions with a single reduced axis only.", "§4 C08"),
    "C09": C("Exhaustive small-scope enumeration of find_group_cohorts + Hypothesis (+ atheris coverage-guided fuzzing in the thorough tier); graph dependency closures; base-3 provenance sums",
             "The planner is run on every canonical code array up to length 6 (7 thorough) x every chunk composition x merge x "
             "expected variants and all small 2-D arrays, against a validity predicate (partition, block coverage, blockwise "
             "only if confined); graphs of every strategy are checked for dependency closure per output chunk; provenance sums "
             "prove every member is counted exactly once.",
             "Arrays whose codes are all -1 are skipped; provenance limited to n<=33 (exact in float64).", "§4 C09"),
    "C11": C("Enumeration of the full dtype cell table x every plan + Hypothesis data; NumPy-derived expected dtypes; per-block truthfulness",
             "Every (input dtype x reduction x dtype= x fill) cell is run on every plan (4 engines, 5 chunked strategies x 2 "
             "chunkings): dtype/shape plan-independent, equal to the table derived from NumPy at run time, and the lazy result's "
             "announced dtype/shape/chunks/meta equal those of the computed array and of every computed block. Generated cells add a "
             "chunked batch dimension, chunked labels, two groupers and arbitrary chunk compositions; arg-reductions also get NaN fills.",
             "Cells without a NumPy convention are held to plan-independence and truthfulness only.", "§4 C11"),
    "C15": C("Hypothesis vs native xarray groupby (flox disabled), layered comparison; pass-through and core-array oracles",
             "Generated DataArrays/Datasets (1-4 permuted dims, 1-D/2-D/external/two groupers, dim variants, skipna, min_count, "
             "chunking) compared layer by layer (variables, values, dim order, coordinates, names/attrs) with native xarray; "
             "variables lacking the reduced dims must pass through; groupby_reduce on raw arrays where native refuses.",
             "Native xarray on the in-memory object is the oracle; known deviations of the plain-reduction shortcut are recorded.", "§4 C15"),
    "C16": C("Hypothesis order predicates + label->value mapping vs NumPy reference, provenance weights",
             "Generated unsorted labels (int/float+NaN/str/large ints), sort on/off, expected_groups absent/sorted/permuted/"
             "superset, every strategy: ascending & duplicate-free when sorted, expected / first-appearance order otherwise, "
             "and the label->value pairing always equals the reference mapping.",
             "Chunked calls without expected_groups and sort=False are held to the mapping only.", "§4 C16"),
    "C17": C("Hypothesis + exhaustive small scope (+ atheris coverage-guided fuzzing in the thorough tier): postcondition checks on rechunk helpers, call sequences and method='blockwise'",
             "Generated label sequences (sequential / periodic / irregular), chunkings, chunksize hints, forced-label sets, array / "
             "DataArray / Dataset flavours: values, shape, dtype kept, chunks positive and complete, other axes untouched, input "
             "unmodified, no straddling group (blockwise), forced labels start chunks and old borders kept (cohorts), "
             "method='blockwise' == eager.",
             "No-straddle postcondition asserted for sequential labels only (documented domain).", "§4 C17"),
    "C19": C("Hypothesis-sampled (quick) / fully enumerated (thorough) argument-product cells, outcome-lattice oracle across methods",
             "Each configuration cell is evaluated under map-reduce, automatic, cohorts and (when valid) blockwise plans: failures "
             "must be ValueError/NotImplementedError/ImportError at call or compute time, values must equal the eager result, "
             "the automatic plan must work wherever map-reduce does, explicit plans must match or refuse.",
             "Small fixed-shape data per cell; numba engine sampled sparsely in the quick tier.", "§4 C19"),
}

NOT_APPLICABLE = {
    # filled in as properties are still to be built; every unclaimed property is listed with a reason
}

ALL = [f"C{i:02d}" for i in range(1, 21)]


def main():
    checks = []
    for pid, c in CHECKS.items():
        checks.append(
            {
                "property_id": pid,
                "quick_cmd": f"./check {pid} --tier quick",
                "thorough_cmd": f"./check {pid} --tier thorough",
                "evidence_file": f"evidence/{pid}.json",
                "replay_cmd_template": f"./check {pid} --replay {{path}}",
                "engine": "fv",
                "level_claimed": {"category": "exploration", "text": c["text"], "design_ref": c["ref"]},
                "level_note": c["note"],
                "technique": c["technique"],
            }
        )
    na = []
    for pid in ALL:
        if pid not in CHECKS:
            na.append(
                {
                    "property_id": pid,
                    "reason": NOT_APPLICABLE.get(
                        pid, "check not built yet in this revision (property-based check designed in DESIGN.md §4; work in progress)"
                    ),
                }
            )
    manifest = {
        "version": 1,
        "setup_cmd": "./setup.sh",
        "hooks": {
            "guard": "FLOX_VERIF",
            "enable": "no source hooks are needed: flox is pure Python, installed editable, and every observation point "
            "is reachable through the public API, dask's graph API or a custom dask scheduler; checks import flox "
            "from /repo's working tree",
            "baseline_off_cmd": "/venv/bin/python tools/baseline_compare.py",
            "source_commits": [],
            "add_only": True,
        },
        "engines": [
            {
                "name": "fv",
                "path": "fv/",
                "serves_properties": sorted(CHECKS),
                "kind_free_text": "Hypothesis-driven property-based testing harness (16 spawn workers, signature-bucketed "
                "failures, shrink-to-replay-file, exhaustive small-scope enumerators, owned dask scheduler)",
            }
        ],
        "checks": checks,
        "not_applicable": na,
        "notes": "All checks: ./check <id> --tier quick|thorough ; replay: ./check <id> --replay <file>. "
        "Known findings: known_findings.json (see DESIGN.md §10).",
    }
    with open(os.path.join(HERE, "MANIFEST.json"), "w") as f:
        json.dump(manifest, f, indent=1)
    print("wrote MANIFEST.json with", len(checks), "checks;", len(na), "not_applicable")


if __name__ == "__main__":
    main()
