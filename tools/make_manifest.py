"""Regenerate /verif/MANIFEST.json from the table below (run: /venv/bin/python tools/make_manifest.py)."""

import json
import os

HERE = os.path.dirname(os.path.dirname(os.path.abspath(__file__)))

CHECKS = {
    "C01": dict(
        technique="Hypothesis generated eager calls vs per-group NumPy reference model, all engines",
        text="Generated-input exploration: every accepted engine must equal an independent per-group NumPy model on "
        "generated values/labels (dyadic alphabets => exact comparison). Bounds: n<=24 (40 thorough), <=6 groups, "
        "0-2 batch dims. No absence claim beyond the explored region.",
        note="Trusts NumPy reductions as oracle; numba engine sampled sparsely (JIT cost).",
        ref="§4 C01",
    ),
    "C02": dict(
        technique="Hypothesis differential: chunked (method x reindex x chunking x dask labels) vs eager",
        text="Generated-input differential exploration: computed chunked result and groups must be identical to the eager "
        "call for drawn plans over {None, map-reduce, cohorts, blockwise} x reindex {None, True, False}, arbitrary "
        "chunkings of every axis, numpy or independently chunked dask labels.",
        note="Eager result is the reference (C01 ties it to NumPy); chunk sizes <= 8, <= 8 blocks per axis.",
        ref="§4 C02",
    ),
}

NOT_APPLICABLE = {
    # filled in as properties are still to be built; every unclaimed property is listed with a reason
}

ALL = [f"C{i:02d}" for i in range(1, 21)]


def main():
    checks = []
    for pid, c in CHECKS.items():
        checks.append(
            {
                "property_id": pid,
                "quick_cmd": f"./check {pid} --tier quick",
                "thorough_cmd": f"./check {pid} --tier thorough",
                "evidence_file": f"evidence/{pid}.json",
                "replay_cmd_template": f"./check {pid} --replay {{path}}",
                "engine": "fv",
                "level_claimed": {"category": "exploration", "text": c["text"], "design_ref": c["ref"]},
                "level_note": c["note"],
                "technique": c["technique"],
            }
        )
    na = []
    for pid in ALL:
        if pid not in CHECKS:
            na.append(
                {
                    "property_id": pid,
                    "reason": NOT_APPLICABLE.get(
                        pid, "check not built yet in this revision (property-based check designed in DESIGN.md §4; work in progress)"
                    ),
                }
            )
    manifest = {
        "version": 1,
        "setup_cmd": "./setup.sh",
        "hooks": {
            "guard": "FLOX_VERIF",
            "enable": "no source hooks are needed: flox is pure Python, installed editable, and every observation point "
            "is reachable through the public API, dask's graph API or a custom dask scheduler; checks import flox "
            "from /repo's working tree",
            "baseline_off_cmd": "/venv/bin/python tools/baseline_compare.py",
            "source_commits": [],
            "add_only": True,
        },
        "engines": [
            {
                "name": "fv",
                "path": "fv/",
                "serves_properties": sorted(CHECKS),
                "kind_free_text": "Hypothesis-driven property-based testing harness (16 spawn workers, signature-bucketed "
                "failures, shrink-to-replay-file, exhaustive small-scope enumerators, owned dask scheduler)",
            }
        ],
        "checks": checks,
        "not_applicable": na,
        "notes": "All checks: ./check <id> --tier quick|thorough ; replay: ./check <id> --replay <file>. "
        "Known findings: known_findings.json (see DESIGN.md §10).",
    }
    with open(os.path.join(HERE, "MANIFEST.json"), "w") as f:
        json.dump(manifest, f, indent=1)
    print("wrote MANIFEST.json with", len(checks), "checks;", len(na), "not_applicable")


if __name__ == "__main__":
    main()
