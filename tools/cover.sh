#!/bin/bash
# developer aid: which lines / branches of flox do the generated cases of the quick tier reach?
# usage: [CHECKS="C01 C02"] tools/cover.sh [tier]   -> report in /var/tmp/fvcover/report.txt (nothing is committed)
cd "$(dirname "$0")/.."
tier=${1:-quick}
d=/var/tmp/fvcover; rm -rf $d; mkdir -p $d
for pid in ${CHECKS:-$(seq -f C%02g 1 20)}; do
  FV_COVER_DIR=$d ./check $pid --tier $tier | tail -1
done
git checkout -- evidence
cd $d && /venv/bin/python -m coverage combine -q --data-file=$d/.coverage $d >/dev/null 2>&1
/venv/bin/python -m coverage report --data-file=$d/.coverage -m --include='*/flox/*' > $d/report.txt
tail -25 $d/report.txt
