"""usage: /venv/bin/python /tmp/seed/run_suite.py <worktree>
Runs the flox test-suite inside <worktree> (importing flox from it) and compares the set of passing
tests with the recorded baseline. Exit 0 = every baseline-passing test still passes."""
import json, subprocess, sys, xml.etree.ElementTree as ET, os
wt = os.path.abspath(sys.argv[1])
out = os.path.join(wt, ".suite.junit.xml")
base = json.load(open("/root/.vp/BASELINE.json"))
env = dict(os.environ, PYTHONPATH=wt)
cmd = ["/venv/bin/python", "-m", "pytest", "-q", "-p", "no:cacheprovider", "--timeout=900",
       "--continue-on-collection-errors", f"--junitxml={out}"]
chk = subprocess.run(["/venv/bin/python", "-c", "import flox;print(flox.__file__)"], cwd=wt, env=env, capture_output=True, text=True)
print("flox imported from:", chk.stdout.strip())
assert chk.stdout.strip().startswith(wt), "flox is not imported from the worktree!"
subprocess.run(cmd, cwd=wt, env=env, stdout=subprocess.DEVNULL, stderr=subprocess.DEVNULL)
passed = set()
for tc in ET.parse(out).getroot().iter("testcase"):
    if not any(ch.tag in ("failure", "error", "skipped") for ch in tc):
        passed.add(f"{tc.get('classname')}::{tc.get('name')}")
want = set(base["stable_pass"])
missing = sorted(want - passed)
print(f"baseline stable_pass={len(want)} passed_now={len(passed)} newly_failing={len(missing)}")
for m in missing[:60]:
    print("  NEWLY FAILING:", m)
os.remove(out)
sys.exit(1 if missing else 0)
