"""store a verified seeded change under /verif/seeded/<name>/"""
import json, os, shutil, sys
name, src, verif_json = sys.argv[1], sys.argv[2], sys.argv[3]
dst = os.path.join(os.path.dirname(os.path.dirname(os.path.abspath(__file__))), "seeded", name)
os.makedirs(dst, exist_ok=True)
for f in ("patch.diff", "demo.py"):
    shutil.copy(os.path.join(src, f), os.path.join(dst, f))
meta = json.load(open(os.path.join(src, "meta.json")))
ver = json.load(open(verif_json))
meta["verified_by_main_session"] = {
    "what_was_run": ["git apply patch.diff in a scratch worktree of /repo HEAD", "demo.py against the patched tree (expected exit 1) and against /repo (expected exit 0)",
                      "./check <id> --tier quick with FLOX_VERIF_SRC=<patched tree>"] + (["tools/run_suite_in.py <patched tree> (repository test-suite vs BASELINE.json)"] if "suite" in ver else []),
    "result": ver,
}
json.dump(meta, open(os.path.join(dst, "meta.json"), "w"), indent=1)
print("stored", dst)
