#!/bin/bash
# offline bootstrap: make sure hypothesis is importable by /venv/bin/python; install atheris into .deps
set -e
cd "$(dirname "$0")"
export PIP_NO_INDEX=1
if ! /venv/bin/python -c "import hypothesis" 2>/dev/null; then
  /venv/bin/pip install --no-index --find-links /opt/veriftools/wheels hypothesis
fi
if [ ! -d .deps/atheris ]; then
  mkdir -p .deps
  /venv/bin/pip install --no-index --find-links /opt/veriftools/wheels --target .deps atheris >/dev/null 2>&1 || echo "atheris not installable; fuzz tier will be skipped"
fi
mkdir -p .cache/numba evidence replays
touch .setup_done
echo "setup ok"
